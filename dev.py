#!/usr/local/bin/python3-vt
# developer tool: run the jobs of a scenario in-process (optionally filtered) and print details
import sys, os, json, time, collections
sys.path.insert(0, os.path.dirname(os.path.abspath(__file__)))
import importlib, framework
from irsym import build, api
def main():
    scen = importlib.import_module('scenarios.' + sys.argv[1].lower())
    tier = sys.argv[2] if len(sys.argv) > 2 else 'quick'
    filt = sys.argv[3] if len(sys.argv) > 3 else None
    wd = '/var/tmp/vpdev_' + scen.ID
    opts = getattr(scen, 'OPTS', ['O1'])
    if callable(opts): opts = opts(tier)
    mods = {o: build.build_module(os.path.join(wd, o), scen.HARNESSES, o, 'm' + o) for o in opts}
    engs = {}
    def engine(o='O1'):
        if o not in engs: engs[o] = api.load_engine(mods[o])
        return engs[o]
    jobs = scen.jobs(tier, 0)
    for j in jobs: j['opts_levels'] = list(opts)
    for j in jobs:
        if filt and not eval(filt, {}, dict(j.get('cfg', {}), job=j)): continue
        t = time.time()
        r = scen.run_job(engine, j)
        print('JOB', {k: v for k, v in j.get('cfg', {}).items() if v}, j.get('name', ''), '%.1fs' % (time.time() - t), r['kinds'], 'obl', r['obligations'], 'dis', r['discharged'], 'q', r['solver_queries'])
        for v in r['violations']: print('   VIOL', v['id'], v['detail'], v['count'])
        for v in r['inconclusive'][:5]: print('   INCON', v)
        ev = {k: v for k, v in r['events'].items() if not k.startswith('fp-to') and not k.startswith('signed')}
        if ev: print('   events', ev)
main()
