#!/usr/local/bin/python3-vt
# Entry point: ./run.py <ID> --tier quick|thorough      ./run.py --replay <path>
import sys, os, argparse
sys.path.insert(0, os.path.dirname(os.path.abspath(__file__)))
import framework

def main():
    ap = argparse.ArgumentParser()
    ap.add_argument('prop', nargs='?')
    ap.add_argument('--tier', default=os.environ.get('VERIF_TIER', 'quick'), choices=['quick', 'thorough'])
    ap.add_argument('--replay')
    a = ap.parse_args()
    if a.replay:
        import replay
        sys.exit(replay.main(a.replay))
    rc = framework.main(a.prop.lower(), a.tier)
    sys.stdout.flush(); sys.stderr.flush()
    os._exit(rc)          # (no interpreter tear-down: worker queues that were cut by the budget must not be able to block the exit)
main()
