#!/usr/local/bin/python3-vt
# Entry point: ./run.py <ID> --tier quick|thorough      ./run.py --replay <path>
import sys, os, argparse
sys.path.insert(0, os.path.dirname(os.path.abspath(__file__)))
import framework

def main():
    ap = argparse.ArgumentParser()
    ap.add_argument('prop', nargs='?')
    ap.add_argument('--tier', default=os.environ.get('VERIF_TIER', 'quick'), choices=['quick', 'thorough'])
    ap.add_argument('--replay')
    a = ap.parse_args()
    if a.replay:
        import replay
        sys.exit(replay.main(a.replay))
    sys.exit(framework.main(a.prop.lower(), a.tier))
main()
