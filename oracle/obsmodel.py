# Structured view of (a) the harness' canonical dump (vp::dump_all) and (b) the reference decoder's output,
# and the comparison rules between them (DESIGN.md 2.5).
import z3
from . import c3dref
from irsym.check import Obl, neq, upper
from irsym.core import is_c

def parse_dump(sec):
    """list of (label, value) as emitted by vp::dump_all -> model dict"""
    M = {'hdr': {}, 'groups': [], 'frames': None}
    it = iter(sec); cur_g = None; cur_p = None; cur_f = None; cur_pt = None; cur_sf = None
    ev = {'hdr.eventsTime': [], 'hdr.eventsDisplay': [], 'hdr.eventsLabel': []}
    for l, v in sec:
        if l.startswith('hdr.'):
            if l in ev: ev[l].append(v)
            else: M['hdr'][l[4:]] = v
        elif l == 'par.nbGroups': M['nbGroups'] = v
        elif l == 'grp.name': cur_g = {'name': v, 'params': []}; M['groups'].append(cur_g)
        elif l == 'grp.desc': cur_g['desc'] = v
        elif l == 'grp.locked': cur_g['locked'] = v
        elif l == 'grp.nbParameters': cur_g['nbParameters'] = v
        elif l == 'prm.name': cur_p = {'name': v, 'dims': [], 'values': []}; cur_g['params'].append(cur_p)
        elif l == 'prm.desc': cur_p['desc'] = v
        elif l == 'prm.locked': cur_p['locked'] = v
        elif l == 'prm.type': cur_p['type'] = v if not is_c(v) else (v - (1 << 64) if v >> 63 else v)
        elif l == 'prm.ndim': cur_p['ndim'] = v
        elif l == 'prm.dim': cur_p['dims'].append(v)
        elif l == 'prm.n': cur_p['n'] = v
        elif l in ('prm.i', 'prm.b', 'prm.f', 'prm.s', 'prm.datastart'):
            cur_p['values'].append(v)
            if l == 'prm.datastart': cur_p['is_data_start'] = True
        elif l == 'dat.nbFrames': M['frames'] = []; M['nbFrames'] = v
        elif l == 'frm.nbPoints': cur_f = {'points': [], 'subframes': [], 'nbPoints': v}; M['frames'].append(cur_f)
        elif l == 'pt.name': cur_pt = {'name': v}; cur_f['points'].append(cur_pt)
        elif l == 'pt.x':
            if not cur_f['points'] or 'x' in cur_f['points'][-1]: cur_pt = {}; cur_f['points'].append(cur_pt)
            cur_pt['x'] = v
        elif l in ('pt.y', 'pt.z', 'pt.residual'): cur_pt[l[3:]] = v
        elif l == 'frm.nbSubframes': cur_f['nbSubframes'] = v
        elif l == 'sub.nbChannels': cur_sf = []; cur_f['subframes'].append(cur_sf)
        elif l == 'ch.name': cur_sf.append({'name': v})
        elif l == 'ch.data':
            if not cur_sf or 'data' in cur_sf[-1]: cur_sf.append({})
            cur_sf[-1]['data'] = v
    M['hdr'].update({k[4:]: v for k, v in ev.items()})
    return M

def cstr(cells):
    return bytes(cells).decode('latin1') if all(is_c(c) for c in cells) else None

def until_nul(cells):
    """expected std::string built from a NUL-terminated buffer: cells up to the first (concrete) NUL"""
    out = []
    for c in cells:
        if is_c(c) and c == 0: break
        out.append(c)
    return out

def eq_list(locus, exp, got, detail, up=False):
    """obligations: list of cells got == exp (same length)"""
    if len(exp) != len(got): return [Obl(locus + '.length', True, '%s: length %d expected, %d found' % (detail, len(exp), len(got)))]
    out = []
    for j, (e, g) in enumerate(zip(exp, got)):
        if up: e = upper(e)
        out.append(Obl(locus, neq(e, g), '%s byte %d' % (detail, j)))
    return out or [Obl(locus, False)]

def sx(v, frm, to=64):
    if is_c(v):
        v &= (1 << frm) - 1
        return (v - (1 << frm) if v >> (frm - 1) else v) & ((1 << to) - 1)
    return z3.SignExt(to - frm, v)

def compare_loaded_with_file(D, frames, M, prefix, opts=None):
    """obligations that the loaded object's dump M exposes exactly what the reference decode (D, frames) of the
    file encodes (C02 rules).  opts: dict(labels_by_position=True ...)"""
    opts = opts or {}
    H = D['H']; h = M['hdr']; O = []
    def o(name, exp, got, detail=None): O.append(Obl('%s/%s' % (prefix, name), neq(exp, got), detail or name))
    o('hdr.nb3dPoints', H['nb_points'], h['nb3dPoints'])
    o('hdr.nbAnalogsMeasurement', H['analog_total'], h['nbAnalogsMeasurement'])
    o('hdr.nbAnalogByFrame', H['sub'], h['nbAnalogByFrame'])
    if not opts.get('skip_frame_range'):
        o('hdr.firstFrame', ((H['first'] - 1) & 0xFFFFFFFFFFFFFFFF) if is_c(H['first']) else z3.ZeroExt(48, H['first']) - 1, h['firstFrame'])
        o('hdr.lastFrame', ((H['last'] - 1) & 0xFFFFFFFFFFFFFFFF) if is_c(H['last']) else z3.ZeroExt(48, H['last']) - 1, h['lastFrame'])
    o('hdr.frameRate', H['rate'], h['frameRate'])
    if 'nbMaxInterpGap' in h:
        o('hdr.nbMaxInterpGap', H['gap'], h['nbMaxInterpGap'])
        o('hdr.nbEvents', H['nb_events'], h['nbEvents'])
        o('hdr.keyLabelPresent', H['key_label'], h['keyLabelPresent'])
        o('hdr.firstBlockKeyLabel', H['key_block'], h['firstBlockKeyLabel'])
        o('hdr.fourCharPresent', H['four_char'], h['fourCharPresent'])
        if not opts.get('skip_data_start_word'): o('hdr.dataStart', H['data_start'], h['dataStart'])
        for i in range(18):
            o('hdr.eventsTime', H['event_times'][i], h['eventsTime'][i], 'event time %d' % i)
        # display flags are bytes in the file; the API exposes them as 9 words
        for i in range(9):
            w = c3dref.join(H['event_flags'][2 * i:2 * i + 2]); o('hdr.eventsDisplay', w, h['eventsDisplay'][i], 'event display word %d' % i)
        for i in range(18):
            O.extend(eq_list(prefix + '/hdr.eventsLabel', until_nul(H['event_labels'][i]), h['eventsLabel'][i], 'event label %d' % i))
    # ---- groups and parameters: matched by name (C02) or by position (C03: the writer's order is the object's order)
    pairs = []       # (file group dict, object group dict, tag)
    if opts.get('match') == 'position':
        fg = [D['groups'][x[1]] for x in D['order'] if x[0] == 'g']
        og = [g for g in M['groups']]
        if len(fg) != len(og): O.append(Obl(prefix + '/par.nbGroups', True, '%d group records in the file, %d groups in the object' % (len(fg), len(og))))
        for k, (g, gg) in enumerate(zip(fg, og)):
            O.extend(eq_list(prefix + '/grp.name', gg['name'], g['name'], 'name of group %d' % k, up=True))
            pairs.append((g, gg, 'group#%d' % k, list(zip(g['params'], gg['params'])) if len(g['params']) == len(gg['params']) else None))
    else:
        got_groups = {}
        for g in M['groups']:
            n = cstr(g['name'])
            if n is None: O.append(Obl(prefix + '/grp.name', True, 'loaded group name is symbolic')); continue
            if n == '': continue      # id placeholders are not named groups
            if n in got_groups: O.append(Obl(prefix + '/grp.duplicate', True, 'group %s appears twice' % n))
            got_groups[n] = g
        exp_names = set()
        for gid, g in sorted(D['groups'].items()):
            n = cstr(g['name'])
            exp_names.add(n)
            gg = got_groups.get(n)
            if gg is None: O.append(Obl(prefix + '/grp.missing', True, 'group %s (id %d) of the file is not in the loaded object' % (n, gid))); continue
            gp = {}
            for p in gg['params']:
                pn = cstr(p['name'])
                if pn in gp: O.append(Obl(prefix + '/prm.duplicate', True, 'parameter %s:%s appears twice' % (n, pn)))
                gp[pn] = p
            pp = []
            for p in g['params']:
                pn = cstr(p['name']); q = gp.get(pn)
                if q is None: O.append(Obl(prefix + '/prm.missing', True, 'parameter %s:%s of the file is not in the loaded object' % (n, pn))); continue
                pp.append((p, q))
            pairs.append((g, gg, n, pp))
        for n in got_groups:
            if n not in exp_names: O.append(Obl(prefix + '/grp.extra', True, 'loaded object has a group %s the file does not contain' % n))
    for g, gg, n, pp in pairs:
        O.extend(eq_list(prefix + '/grp.desc', g['desc'], gg['desc'], 'description of group ' + n))
        o('grp.locked', 1 if g['locked'] else 0, gg['locked'], 'lock flag of group ' + n)
        o('grp.nbParameters', len(g['params']), len(gg['params']), 'parameter count of group ' + n)
        for k, (p, q) in enumerate(pp or []):
            pn = cstr(p['name']) or ('#%d' % k); tag = '%s:%s' % (n, pn)
            if opts.get('match') == 'position':
                O.extend(eq_list(prefix + '/prm.name', q['name'], p['name'], 'name of parameter %d of %s' % (k, n), up=True))
            O.extend(eq_list(prefix + '/prm.desc', p['desc'], q['desc'], 'description of ' + tag))
            o('prm.locked', 1 if p['locked'] else 0, q['locked'], 'lock flag of ' + tag)
            o('prm.type', p['type'], q['type'], 'type of ' + tag)
            dims = p['dims']
            if not dims and p['type'] != -1: dims = [1]       # a scalar is a 1-element array in the API
            if len(dims) != len(q['dims']): O.append(Obl(prefix + '/prm.ndim', True, '%s: %d dimensions in the file, %d in the object' % (tag, len(dims), len(q['dims'])))); continue
            for k2, (a, b2) in enumerate(zip(dims, q['dims'])): o('prm.dim', a, b2, 'dimension %d of %s' % (k2, tag))
            if q.get('is_data_start') and opts.get('skip_data_start_value'): continue
            if p['type'] == -1:
                strs = c3dref.strings_of(p)
                if len(p['dims']) == 1: strs = [list(p['values'])] if p['dims'][0] else []
                if len(strs) != len(q['values']): O.append(Obl(prefix + '/prm.n', True, '%s: %d strings in the file, %d in the object' % (tag, len(strs), len(q['values'])))); continue
                for k2, (s_, gs) in enumerate(zip(strs, q['values'])):
                    ok = c3dref.trimmed_equal_obligation(s_, gs)
                    bad = (not ok) if type(ok) is bool else z3.Not(ok)
                    O.append(Obl(prefix + '/prm.s', bad, 'string %d of %s' % (k2, tag)))
            else:
                if len(p['values']) != len(q['values']): O.append(Obl(prefix + '/prm.n', True, '%s: %d values in the file, %d in the object' % (tag, len(p['values']), len(q['values'])))); continue
                w = {1: 8, 2: 16, 4: 32}[p['type']]
                for k2, (a, b2) in enumerate(zip(p['values'], q['values'])):
                    if p['type'] == 4: o('prm.f', a, b2, 'float value %d of %s' % (k2, tag))
                    else: o('prm.i' if p['type'] == 2 else 'prm.b', sx(a, w), b2, 'value %d of %s' % (k2, tag))
    # ---- frames
    if frames is not None:
        o('dat.nbFrames', len(frames), M.get('nbFrames', 0))
        labels = opts.get('point_labels'); alabels = opts.get('channel_labels')
        for f, ((pts, ana), mf) in enumerate(zip(frames, M['frames'] or [])):
            o('frm.nbPoints', len(pts), mf['nbPoints'], 'point count of frame %d' % f)
            for i, (p, mp) in enumerate(zip(pts, mf['points'])):
                for k, c in enumerate(('x', 'y', 'z', 'residual')): o('pt.' + c, p[k], mp[c], '%s of point %d in frame %d' % (c, i, f))
                if labels is not None and i < len(labels) and 'name' in mp:
                    ok = c3dref.trimmed_equal_obligation(labels[i], mp['name'])
                    O.append(Obl(prefix + '/pt.name', (not ok) if type(ok) is bool else z3.Not(ok), 'name of point %d in frame %d' % (i, f)))
            o('frm.nbSubframes', len(ana), mf['nbSubframes'], 'sub-frame count of frame %d' % f)
            for s, (sf, msf) in enumerate(zip(ana, mf['subframes'])):
                if len(sf) != len(msf): O.append(Obl(prefix + '/sub.nbChannels', True, 'frame %d sub-frame %d: %d channels in file, %d loaded' % (f, s, len(sf), len(msf)))); continue
                for i, (v, mc) in enumerate(zip(sf, msf)):
                    o('ch.data', v, mc['data'], 'channel %d of sub-frame %d in frame %d' % (i, s, f))
                    if alabels is not None and i < len(alabels) and 'name' in mc:
                        ok = c3dref.trimmed_equal_obligation(alabels[i], mc['name'])
                        O.append(Obl(prefix + '/ch.name', (not ok) if type(ok) is bool else z3.Not(ok), 'name of channel %d' % i))
    return O
