# Contract model of the frame-adding calls, exactly as documented in include/ezc3d.h (lines 353-429) and
# restated in property C07.  Evaluated on the abstract state read from the "before" dump and on facts about
# the argument reported by the harness.  Exception class codes: 2 invalid_argument, 6 runtime_error
# (5 range_error is-a runtime_error).
from .obsmodel import parse_dump, cstr
from irsym.core import is_c

INVALID_ARGUMENT = 2; RUNTIME_ERROR = 6
RUNTIME_LIKE = (5, 6)          # std::range_error derives from std::runtime_error

def abstract(M):
    """declared shape of the object, from its dump"""
    A = {'used': None, 'labels': [], 'prate': None, 'aused': None, 'alabels': [], 'arate': None}
    for g in M['groups']:
        n = cstr(g['name'])
        for p in g['params']:
            pn = cstr(p['name'])
            if n == 'POINT':
                if pn == 'USED': A['used'] = p['values'][0]
                if pn == 'LABELS': A['labels'] = p['values']
                if pn == 'RATE': A['prate'] = p['values'][0]
            if n == 'ANALOG':
                if pn == 'USED': A['aused'] = p['values'][0]
                if pn == 'LABELS': A['alabels'] = p['values']
                if pn == 'RATE': A['arate'] = p['values'][0]
    A['nbFrames'] = M.get('nbFrames', 0); A['sub'] = M['hdr'].get('nbAnalogByFrame')
    return A

def is_zero_float(bits):
    return is_c(bits) and (bits & 0x7fffffff) == 0

def expect(A, call):
    """returns ('accept',) | ('reject', set_of_allowed_class_codes) | ('any',) for one call.
    A: abstract(before), call: dict of the harness' call facts."""
    kind = call['call.kind']
    if A['aused'] is None: return ('any',)     # an ANALOG group without parameters (Optotrak layout): the documented contract is silent (C10 still requires 'unchanged' if refused)
    if kind == 0:      # frame(f[, idx])
        nP = call['arg.nbPoints']; nS = call['arg.nbSubframes']; nC = call['arg.nbChannels']
        reasons = set(); free = False
        if A['used'] != 0 and nP != A['used']: reasons.add(RUNTIME_ERROR)
        if call['arg.labelMissing']: reasons.add(INVALID_ARGUMENT)
        if nP > 0 and is_zero_float(A['prate']): reasons.add(RUNTIME_ERROR)
        if nS > 0 and is_zero_float(A['arate']): reasons.add(RUNTIME_ERROR)
        if A['aused'] != 0 and nC != A['aused']: reasons.add(RUNTIME_ERROR)      # a frame without analogs has 0 channels
        if nS > 0 and A['aused'] == 0 and nC > 0: free = True        # channels never declared: the contract is silent
        if nS > 0 and A['sub'] not in (0, nS): free = True            # sub-frame ratio deviates: outside the documented cases
        if reasons: return ('reject', reasons)
        if free: return ('any',)
        return ('accept',)
    if kind in (1, 2) and call.get('arg.ragged'): return ('any',)      # ragged arguments: the documented contract is silent (C10 still requires 'unchanged' if refused)
    if kind == 1:      # point(frames)
        bad = call['arg.nbFrames'] != A['nbFrames'] or call['arg.nbFrames'] == 0 or call['arg.nbNames'] == 0 or call['arg.nameExists']
        return ('reject', {INVALID_ARGUMENT}) if bad else ('accept',)
    if kind == 2:      # analog(frames)
        bad = call['arg.nbFrames'] != A['nbFrames'] or call['arg.nbFrames'] == 0 or call['arg.nbSubframes'] != A['sub'] or call['arg.nbNames'] == 0 or call['arg.nameExists']
        return ('reject', {INVALID_ARGUMENT}) if bad else ('accept',)
    if kind in (6, 7):  # point(name) / analog(name): with frames present this adds a column to the existing frames, so the column
                        # rule applies (name already exists -> invalid_argument, otherwise accepted); without frames it is a
                        # declaration, about which the statement says nothing
        if A['nbFrames'] == 0: return ('any',)
        return ('reject', {INVALID_ARGUMENT}) if call['arg.nameExists'] else ('accept',)
    return ('any',)
