# Reference C3D codec written from the C3D User Guide (doc/c3dformat_ug.pdf), independent of ezc3d's source.
# Works on "cells": python ints (concrete bytes) or z3 8-bit expressions, so payload may be symbolic while
# structure (counts, lengths, dimensions, offsets) is concrete.  Little-endian (Intel, processor type 84),
# floating-point data only (negative header scale factor).
import z3

def is_c(v): return type(v) is int

def _simp(e):
    e = z3.simplify(e)
    if z3.is_bv_value(e): return e.as_long()
    return e

def split(v, n):
    """value (int or BitVec of 8n bits) -> n little-endian byte cells"""
    if is_c(v): return list((v & ((1 << (8 * n)) - 1)).to_bytes(n, 'little'))
    assert v.size() == 8 * n, (v.size(), n)
    return [_simp(z3.Extract(8 * k + 7, 8 * k, v)) for k in range(n)]

def join(cells):
    """little-endian byte cells -> int or BitVec"""
    if all(is_c(c) for c in cells): return int.from_bytes(bytes(cells), 'little')
    return _simp(z3.Concat(*[c if not is_c(c) else z3.BitVecVal(c, 8) for c in reversed(cells)]))

def sext(v, frm, to=64):
    """sign-extend a frm-bit value (int or BitVec) to `to` bits; ints are returned as python signed ints"""
    if is_c(v): return v - (1 << frm) if v >> (frm - 1) else v
    return z3.SignExt(to - frm, v)

def chars(s):
    return list(s.encode('latin1')) if isinstance(s, str) else list(s)

class Param:
    def __init__(s, name, typ, dims, values, desc='', locked=False):
        # typ: -1 char, 1 byte, 2 int16, 4 float.  values: flat list in file order (first dimension fastest);
        # char: list of byte cells; byte: 8-bit; int: 16-bit; float: 32-bit patterns.  dims: list of ints 0..255
        s.name = chars(name); s.typ = typ; s.dims = list(dims); s.values = list(values); s.desc = chars(desc); s.locked = locked
    def count(s):
        n = 1
        for d in s.dims: n *= d
        return n

class Group:
    def __init__(s, gid, name, desc='', locked=False, params=None):
        s.gid = gid; s.name = chars(name); s.desc = chars(desc); s.locked = locked; s.params = params or []

class Content:
    def __init__(s):
        s.groups = []            # list of Group (gid = positive id)
        s.nb_points = 0; s.nb_channels = 0; s.sub = 0        # sub = analog samples per 3D frame
        s.first = 1; s.last = 0                               # 1-based frame numbers as stored
        s.gap = 10; s.scale = 0xBF800000                      # -1.0f
        s.rate = 0                                            # float pattern
        s.key_label = 0; s.key_block = 0; s.four_char = 12345
        s.nb_events = 0; s.event_times = [0] * 18; s.event_flags = [0] * 18; s.event_labels = [[0, 0, 0, 0] for _ in range(18)]
        s.frames = []            # list of (points [[x,y,z,res]...], analogs [[ch...] per sub-frame]) float patterns
        s.reserved = {}          # header word number (1-based) -> 16-bit value for words the spec leaves reserved

# ---------------------------------------------------------------------------- encoder
class Layout:
    def __init__(s, **kw):
        s.zeros = 0              # zero bytes before the header (vendor oddity the project supports)
        s.param_block = 2        # 1-based block of the parameter section
        s.zero_prologue = False  # parameter header bytes 1,2 = 0,0 (Qualisys) instead of 1,0x50
        s.order = 'canonical'    # canonical | reversed | params_first
        s.terminator = 'zero_name'   # zero_name: padding byte 0 ends the chain | zero_offset: last record has next-offset 0
        s.scalar_dims = 0        # scalars stored with 0 dimensions (0) or as one dimension of extent 1 (1)
        s.extra_param_blocks = 0 # additional zero blocks counted in the parameter section
        s.header_data_start = True   # write header word 9
        for k, v in kw.items():
            assert hasattr(s, k), k
            setattr(s, k, v)

def encode_record_group(g, next_is_last=False):
    out = []
    n = len(g.name)
    out += split(-n if g.locked else n, 1)
    out += split(-g.gid, 1)
    out += g.name
    body = split(len(g.desc), 1) + g.desc
    return out, body

def encode_record_param(p, gid, lay):
    out = []
    n = len(p.name)
    out += split(-n if p.locked else n, 1)
    out += split(gid, 1)
    out += p.name
    body = split(p.typ, 1)
    dims = p.dims
    if len(dims) == 1 and dims[0] == 1 and p.typ != -1 and lay.scalar_dims == 0: dims = []
    body += split(len(dims), 1)
    for d in dims: body += split(d, 1)
    w = 1 if p.typ in (-1, 1) else p.typ
    for v in p.values: body += split(v, w) if w > 1 else [v]
    body += split(len(p.desc), 1) + p.desc
    return out, body

def encode(c, lay=None):
    lay = lay or Layout()
    # ---- parameter records
    recs = []
    groups = list(c.groups)
    if lay.order == 'reversed':
        groups = groups[::-1]
    for g in groups:
        grec = encode_record_group(g)
        precs = [encode_record_param(p, g.gid, lay) for p in (g.params[::-1] if lay.order == 'reversed' else g.params)]
        if lay.order == 'params_first': recs += precs + [grec]
        else: recs += [grec] + precs
    par = []
    par += [0, 0] if lay.zero_prologue else [1, 0x50]
    par += [0, 84]        # block count patched below; processor type Intel
    data_start_slot = None
    for i, (head, body) in enumerate(recs):
        last = i == len(recs) - 1
        off = 2 + len(body)
        if last and lay.terminator == 'zero_offset': off = 0
        par += head + split(off, 2) + body
    par += [0]            # a zero name-length byte always follows (cleared space)
    nblocks = (len(par) + 511) // 512 + lay.extra_param_blocks
    par += [0] * (nblocks * 512 - len(par))
    par[2] = nblocks
    data_block = lay.param_block + nblocks        # 1-based block number of the data section
    # patch POINT:DATA_START (an INT scalar) if present
    c.data_start_block = data_block
    # ---- header
    h = [0] * 512
    def word(n, v):
        h[2 * (n - 1):2 * (n - 1) + 2] = split(v, 2)
    def dword(n, v):
        h[2 * (n - 1):2 * (n - 1) + 4] = split(v, 4)
    h[0] = lay.param_block; h[1] = 0x50
    word(2, c.nb_points); word(3, c.nb_channels * c.sub if not hasattr(c, 'analog_total') else c.analog_total)
    word(4, c.first); word(5, c.last); word(6, c.gap); dword(7, c.scale)
    word(9, data_block if lay.header_data_start else 0); word(10, c.sub); dword(11, c.rate)
    word(148, c.key_label); word(149, c.key_block); word(150, c.four_char); word(151, c.nb_events)
    for i in range(18): dword(153 + 2 * i, c.event_times[i])
    for i in range(18): h[2 * (189 - 1) + i] = c.event_flags[i]
    for i in range(18): h[2 * (199 - 1) + 4 * i:2 * (199 - 1) + 4 * i + 4] = c.event_labels[i]
    for n, v in c.reserved.items(): word(n, v)
    # ---- data
    dat = []
    for pts, ana in c.frames:
        for p in pts:
            for v in p: dat += split(v, 4)
        for sf in ana:
            for v in sf: dat += split(v, 4)
    out = [0] * lay.zeros + h + [0] * (512 * (lay.param_block - 2)) + par + dat
    return out

def patch_data_start(c):
    """set POINT:DATA_START (if the content has one) to the block the encoder will use; call before encode via encode_with_patch"""
    pass

def encode_with_data_start(c, lay=None):
    """encode twice: the first pass computes the data block, which is then stored in POINT:DATA_START"""
    lay = lay or Layout()
    encode(c, lay)
    for g in c.groups:
        if bytes(x for x in g.name if is_c(x)) == b'POINT':
            for p in g.params:
                if bytes(x for x in p.name if is_c(x)) == b'DATA_START' and p.typ == 2: p.values = [c.data_start_block]
    return encode(c, lay)

# ---------------------------------------------------------------------------- decoder
class DecodeError(Exception):
    pass

def need_c(v, what):
    if not is_c(v): raise DecodeError('structural field %s is symbolic' % what)
    return v

def decode(cells, zeros=0, trust='parameters'):
    """Decode by following only the file's own pointers.  Returns dict: header, groups (by id), checks (list of
    (name, ok, detail)) for the structural rules of the specification, frames."""
    b = cells[zeros:]
    chk = []
    def ck(name, ok, detail=''):
        chk.append((name, bool(ok), detail))
    def word(n): return join(b[2 * (n - 1):2 * (n - 1) + 2])
    def dword(n): return join(b[2 * (n - 1):2 * (n - 1) + 4])
    if len(b) < 512: raise DecodeError('file shorter than a header block')
    H = {}
    H['param_block'] = need_c(b[0], 'header byte 1'); ck('header.key', b[1] == 0x50, 'byte 2 = %s' % b[1])
    H['nb_points'] = word(2); H['analog_total'] = word(3); H['first'] = word(4); H['last'] = word(5); H['gap'] = word(6)
    H['scale'] = dword(7); H['data_start'] = word(9); H['sub'] = word(10); H['rate'] = dword(11)
    H['key_label'] = word(148); H['key_block'] = word(149); H['four_char'] = word(150); H['nb_events'] = word(151)
    H['event_times'] = [dword(153 + 2 * i) for i in range(18)]
    H['event_flags'] = [b[2 * (189 - 1) + i] for i in range(18)]
    H['event_labels'] = [b[2 * (199 - 1) + 4 * i:2 * (199 - 1) + 4 * i + 4] for i in range(18)]
    H['reserved'] = {n: word(n) for n in list(range(13, 148)) + [152, 198] + list(range(235, 257))}
    # ---- parameter section
    ps = 512 * (H['param_block'] - 1)
    if ps + 4 > len(b): raise DecodeError('parameter block beyond end of file')
    nblocks = need_c(b[ps + 2], 'parameter block count')
    H['param_blocks'] = nblocks; H['processor'] = b[ps + 3]
    ck('param.processor', b[ps + 3] == 84, 'processor byte %s' % b[ps + 3])
    pos = ps + 4
    groups = {}; params = []; order = []; sym_checks = []
    end = ps + 512 * nblocks
    terminated = False
    while True:
        if pos >= len(b): raise DecodeError('record chain runs off the file')
        if not is_c(b[pos]) and pos >= ps + 4 and (order or True):
            # a payload byte sits where a name length or the end marker must be: well-formed only if it is 0
            sym_checks.append(('param.terminated', b[pos] != 0, 'the byte at offset %d, where the next record or the end marker (0) must be, is payload' % pos))
            terminated = True; term_pos = pos; break
        nl = need_c(b[pos], 'name length'); nl = nl - 256 if nl > 127 else nl
        if nl == 0: terminated = True; term_pos = pos; break
        gid = need_c(b[pos + 1], 'group id'); gid = gid - 256 if gid > 127 else gid
        locked = nl < 0; n = abs(nl)
        name = b[pos + 2:pos + 2 + n]
        offpos = pos + 2 + n
        off = need_c(join(b[offpos:offpos + 2]), 'next offset')
        q = offpos + 2
        if gid < 0:
            dl = need_c(b[q], 'description length')
            desc = b[q + 1:q + 1 + dl]; q = q + 1 + dl
            ck('record.group_id_unique', -gid not in groups, 'group id %d twice' % -gid)
            groups[-gid] = {'name': name, 'desc': desc, 'locked': locked, 'params': [], 'pos': pos}
            order.append(('g', -gid))
        else:
            typ = need_c(b[q], 'type'); typ = typ - 256 if typ > 127 else typ
            nd = need_c(b[q + 1], 'ndims'); q += 2
            ck('record.type', typ in (-1, 1, 2, 4), 'type %d' % typ); ck('record.ndims', 0 <= nd <= 7, 'ndims %d' % nd)
            dims = [need_c(x, 'dimension') for x in b[q:q + nd]]; q += nd
            cnt = 1
            for d in dims: cnt *= d
            w = 1 if typ in (-1, 1) else typ
            vals = [join(b[q + k * w:q + k * w + w]) if w > 1 else b[q + k] for k in range(cnt)]
            valpos = q
            q += cnt * w
            dl = need_c(b[q], 'description length')
            desc = b[q + 1:q + 1 + dl]; q = q + 1 + dl
            params.append({'gid': gid, 'name': name, 'desc': desc, 'locked': locked, 'type': typ, 'dims': dims, 'values': vals, 'valpos': valpos, 'pos': pos})
            order.append(('p', gid, len(params) - 1))
        if off == 0:
            terminated = True; term_pos = q; break
        ck('record.next_offset', offpos + off == q, 'record at %d: next-offset %d, record actually ends %d bytes after the offset word' % (pos, off, q - offpos))
        pos = offpos + off
    ck('param.terminated', terminated)
    ck('param.within_blocks', term_pos < end, 'records end at %d, declared section end %d' % (term_pos, end))
    ck('param.padding_zero', all((is_c(x) and x == 0) for x in b[term_pos + (1 if sym_checks else 0):end]), 'non-zero byte in the cleared space')
    for p in params:
        ck('record.param_has_group', p['gid'] in groups, 'parameter of unknown group id %d' % p['gid'])
        if p['gid'] in groups: groups[p['gid']]['params'].append(p)
    # ---- locate data
    byname = {}
    for gid, g in groups.items():
        if all(is_c(x) for x in g['name']): byname[bytes(g['name']).decode('latin1')] = g
    def par(gn, pn):
        g = byname.get(gn)
        if not g: return None
        for p in g['params']:
            if all(is_c(x) for x in p['name']) and bytes(p['name']).decode('latin1') == pn: return p
        return None
    ds = par('POINT', 'DATA_START')
    D = {'H': H, 'groups': groups, 'params': params, 'order': order, 'checks': chk, 'byname': byname, 'par': par, 'sym_checks': sym_checks}
    data_block = None
    if ds is not None and ds['type'] == 2 and len(ds['values']) == 1 and is_c(ds['values'][0]):
        data_block = ds['values'][0]
        ck('point.data_start', data_block * 512 - 512 >= end or True, '')
        ck('header.data_start', is_c(H['data_start']) and H['data_start'] == data_block, 'header word 9 = %s, POINT:DATA_START = %d' % (H['data_start'], data_block))
        ck('point.data_start_after_params', (data_block - 1) * 512 >= end, 'POINT:DATA_START block %d starts before the end of the parameter section (byte %d)' % (data_block, end))
    elif trust == 'header' and is_c(H['data_start']):
        data_block = H['data_start']
    D['data_block'] = data_block
    return D

def decode_frames(cells, D, zeros=0, data_block=None, nframes=None):
    """frames as float patterns, using header counts; data located by data_block (default: POINT:DATA_START)"""
    b = cells[zeros:]; H = D['H']
    db = data_block if data_block is not None else D['data_block']
    P = need_c(H['nb_points'], 'points'); tot = need_c(H['analog_total'], 'analog total'); sub = need_c(H['sub'], 'sub-frames')
    C = tot // sub if sub else 0
    if nframes is None: nframes = need_c(H['last'], 'last') - need_c(H['first'], 'first') + 1
    pos = 512 * (db - 1); frames = []
    per = 4 * (4 * P + C * sub)
    for f in range(nframes):
        pts = []
        for i in range(P):
            pts.append([join(b[pos + 4 * k:pos + 4 * k + 4]) for k in range(4)]); pos += 16
        ana = []
        for s in range(sub):
            ana.append([join(b[pos + 4 * k:pos + 4 * k + 4]) for k in range(C)]); pos += 4 * C
        frames.append((pts, ana))
    D['data_end'] = pos; D['data_bytes_expected'] = per * nframes
    return frames

def strings_of(p, trim=True):
    """char parameter -> list of strings (each a list of cells), first dimension is the string length"""
    dims = p['dims']
    if not dims: return []
    L = dims[0]; n = 1
    for d in dims[1:]: n *= d
    out = []
    for k in range(n):
        s = list(p['values'][k * L:(k + 1) * L])
        out.append(s)
    return out

def trimmed_equal_obligation(stored, got):
    """z3 Bool / python bool: `got` (list of cells) equals `stored` with trailing spaces removed"""
    # all concrete fast path
    if all(is_c(x) for x in stored):
        s = list(stored)
        while s and s[-1] == 32: s.pop()
        if len(s) != len(got): return False
        conds = [x == y for x, y in zip(s, got)]
        conds = [c for c in conds if c is not True]
        if any(c is False for c in conds): return False
        return z3.And(*conds) if conds else True
    # symbolic: got has concrete length n; stored[n:] must all be spaces, stored[n-1] not a space, stored[:n] == got
    n = len(got)
    if n > len(stored): return False
    conds = []
    for x in stored[n:]: conds.append(x == 32)
    if n: conds.append(stored[n - 1] != 32)
    for x, y in zip(stored[:n], got): conds.append(x == y)
    conds = [c for c in conds if c is not True]
    if any(c is False for c in conds): return False
    return z3.And(*conds) if conds else True
