// Common part of the stream models: a std::basic_ostream whose three primitive operations (put bytes, seek, tell) are virtual,
// so that section writers taking std::ostream& work on a file stream and on a string stream alike.  Contract modelled: ISO C++11
// [ostream.unformatted], [ostream.seeks], [ostream.inserters]/7-9 (operator<<(streambuf*)), [iostate.flags].
#ifndef VP_SHIM_STREAMS
#define VP_SHIM_STREAMS
#include <ios>
#include <string>
#include "vp_intrinsics.h"
namespace std {
// the readable side of a stream buffer, as far as operator<<(streambuf*) needs it
struct __vp_srcbuf {
  virtual ~__vp_srcbuf() {}
  virtual const char* _vp_pending(long& n) = 0;     // characters not yet extracted
  virtual void _vp_consume(long n) = 0;
};
template<typename _CharT, typename _Traits>
class basic_ostream {
public:
  typedef _CharT char_type;
  typedef typename _Traits::pos_type pos_type;
  typedef typename _Traits::off_type off_type;
  typedef ios_base::iostate iostate;
  typedef ios_base::openmode openmode;
  typedef ios_base::seekdir seekdir;
  static const iostate goodbit = ios_base::goodbit, badbit = ios_base::badbit, eofbit = ios_base::eofbit, failbit = ios_base::failbit;
  static const openmode in = ios_base::in, out = ios_base::out, binary = ios_base::binary, app = ios_base::app, ate = ios_base::ate, trunc = ios_base::trunc;
  static const seekdir beg = ios_base::beg, cur = ios_base::cur, end = ios_base::end;
protected:
  iostate _st; iostate _exc;
  basic_ostream() : _st(ios_base::goodbit), _exc(ios_base::goodbit) {}
  // primitives of the concrete stream.  some = false: all n characters or none (returns n or 0);
  // some = true: as many as the device takes, one at a time (returns the number taken)
  virtual long _vp_put(const char_type* s, long n, bool some) = 0;
  virtual long _vp_seekto(long off, int whence) = 0;      // < 0: failure
  virtual long _vp_where() = 0;                           // < 0: no position
  basic_ostream& _seek(off_type o, int whence) {
    _st &= ~ios_base::eofbit;                 // C++11: seekg clears eofbit first
    if (fail()) return *this;
    if (_vp_seekto(o, whence) < 0) setstate(ios_base::failbit);
    return *this;
  }
private:
  basic_ostream(const basic_ostream&);
  basic_ostream& operator=(const basic_ostream&);
public:
  virtual ~basic_ostream() {}
  // state
  iostate rdstate() const { return _st; }
  void clear(iostate s = ios_base::goodbit) { _st = s; if (_st & _exc) throw ios_base::failure("basic_ios::clear"); }
  void setstate(iostate s) { clear(_st | s); }
  bool good() const { return _st == 0; }
  bool eof() const { return (_st & ios_base::eofbit) != 0; }
  bool fail() const { return (_st & (ios_base::badbit | ios_base::failbit)) != 0; }
  bool bad() const { return (_st & ios_base::badbit) != 0; }
  bool operator!() const { return fail(); }
  explicit operator bool() const { return !fail(); }
  iostate exceptions() const { return _exc; }
  void exceptions(iostate e) { _exc = e; clear(_st); }
  // output
  basic_ostream& write(const char_type* s, streamsize n) {
    if (!good()) { setstate(ios_base::failbit); return *this; }   // sentry fails
    if (n > 0 && _vp_put(s, n, false) != n) setstate(ios_base::badbit);
    return *this;
  }
  basic_ostream& put(char_type c) { return write(&c, 1); }
  basic_ostream& flush() { return *this; }
  pos_type tellp() { if (fail()) return pos_type(off_type(-1)); return pos_type(off_type(_vp_where())); }
  basic_ostream& seekp(pos_type p) { return _seek(off_type(p), 0); }
  basic_ostream& seekp(off_type o, seekdir d) { return _seek(o, d == ios_base::beg ? 0 : d == ios_base::cur ? 1 : 2); }
  // [ostream.inserters]/7-9: characters are inserted until the source is exhausted or an insertion fails; only when NO character
  // was inserted is failbit set (a device that takes part of the content and refuses the rest leaves the stream good)
  basic_ostream& operator<<(__vp_srcbuf* sb) {
    if (!good()) { setstate(ios_base::failbit); return *this; }
    if (!sb) { setstate(ios_base::badbit); return *this; }
    long n = 0; const char* p = sb->_vp_pending(n);
    long w = n > 0 ? _vp_put(p, n, true) : 0;
    if (w > 0) sb->_vp_consume(w);
    if (w == 0) setstate(ios_base::failbit);
    return *this;
  }
};
}
#endif
