#ifndef VP_INTRINSICS_H
#define VP_INTRINSICS_H
extern "C" {
  int  __vp_file_open(const char* path, unsigned long len, int mode) noexcept;
  long __vp_file_read(int h, char* dst, long n) noexcept;
  long __vp_file_write(int h, const char* src, long n) noexcept;
  long __vp_file_write_some(int h, const char* src, long n) noexcept;    // as many leading bytes as the device takes
  long __vp_file_seek(int h, long off, int whence) noexcept;
  long __vp_file_tell(int h) noexcept;
  int  __vp_file_close(int h) noexcept;
}
#endif
