from .api import *
