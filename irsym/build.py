# Builds the LLVM IR module: /repo/src/*.cpp (current working tree) + harness sources, linked with llvm-link.
import os, subprocess, glob, hashlib, tempfile, shutil
from concurrent.futures import ThreadPoolExecutor

VERIF = os.path.dirname(os.path.dirname(os.path.abspath(__file__)))
REPO = os.environ.get('VERIF_REPO', '/repo')
GUARD = 'EZC3D_VERIF'
BASE_FLAGS = ['-std=c++11', '-D_GLIBCXX_ASSERTIONS', '-D' + GUARD, '-fno-vectorize', '-fno-slp-vectorize', '-fno-unroll-loops', '-mllvm', '-vectorize-slp=false', '-mllvm', '-vectorize-loops=false',
              '-Wno-everything', '-I' + os.path.join(VERIF, 'shim'), '-I' + os.path.join(REPO, 'include'), '-I' + os.path.join(VERIF, 'harness')]

def _cc(args):
    src, out, opt = args
    cmd = ['clang++-14'] + BASE_FLAGS + ['-' + opt, '-S', '-emit-llvm', src, '-o', out]
    if opt == 'O0': cmd.insert(1, '-Xclang'); cmd.insert(2, '-disable-O0-optnone')
    r = subprocess.run(cmd, capture_output=True, text=True)
    if r.returncode != 0:
        raise RuntimeError('clang failed on %s:\n%s' % (src, r.stderr[-3000:]))
    return out

def build_module(workdir, harnesses, opt='O1', tag='mod'):
    """compile library + the given harness .cpp files at optimisation level opt; return path of linked .ll"""
    os.makedirs(workdir, exist_ok=True)
    srcs = sorted(glob.glob(os.path.join(REPO, 'src', '*.cpp')))
    jobs = []
    for s in srcs: jobs.append((s, os.path.join(workdir, '%s_lib_%s.ll' % (tag, os.path.basename(s)[:-4])), opt))
    for h in harnesses:
        hp = h if os.path.isabs(h) else os.path.join(VERIF, 'harness', h)
        jobs.append((hp, os.path.join(workdir, '%s_h_%s.ll' % (tag, os.path.basename(hp)[:-4])), opt))
    with ThreadPoolExecutor(16) as ex: outs = list(ex.map(_cc, jobs))
    out = os.path.join(workdir, tag + '.ll')
    r = subprocess.run(['llvm-link-14', '-S'] + outs + ['-o', out], capture_output=True, text=True)
    if r.returncode != 0: raise RuntimeError('llvm-link failed:\n' + r.stderr[-3000:])
    return out

NATIVE_FLAGS = ['-std=c++11', '-D' + GUARD, '-DVP_NATIVE', '-I' + os.path.join(REPO, 'include'), '-I' + os.path.join(VERIF, 'harness'), '-w']
def build_native(workdir, harness, entry, opt='O1', extra=(), cxx='g++', tag='nat'):
    """native build of the real library + one harness + the native intrinsics (real std::fstream)."""
    os.makedirs(workdir, exist_ok=True)
    srcs = sorted(glob.glob(os.path.join(REPO, 'src', '*.cpp')))
    hp = harness if os.path.isabs(harness) else os.path.join(VERIF, 'harness', harness)
    objs = []
    def cc(src):
        o = os.path.join(workdir, '%s_%s.o' % (tag, os.path.basename(src)[:-4]))
        r = subprocess.run([cxx] + NATIVE_FLAGS + ['-DVP_MAIN=' + entry] + list(extra) + ['-' + opt, '-c', src, '-o', o], capture_output=True, text=True)
        if r.returncode != 0: raise RuntimeError('%s failed on %s:\n%s' % (cxx, src, r.stderr[-3000:]))
        return o
    with ThreadPoolExecutor(16) as ex:
        objs = list(ex.map(cc, srcs + [hp, os.path.join(VERIF, 'harness', 'vp_native.cpp')]))
    exe = os.path.join(workdir, tag + '_' + os.path.basename(hp)[:-4])
    r = subprocess.run([cxx] + list(extra) + objs + ['-o', exe], capture_output=True, text=True)
    if r.returncode != 0: raise RuntimeError('link failed:\n' + r.stderr[-3000:])
    return exe

def repo_fingerprint():
    h = hashlib.sha256()
    for p in sorted(glob.glob(os.path.join(REPO, 'src', '*.cpp')) + glob.glob(os.path.join(REPO, 'include', '*.h'))):
        h.update(p.encode()); h.update(open(p, 'rb').read())
    return h.hexdigest()[:16]
