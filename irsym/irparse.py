# Prototype LLVM-14 textual IR parser (typed pointers).  Feasibility probe only.
import re, struct

TOKEN = re.compile(r'''
 (?P<ws>\s+|;[^\n]*) |
 (?P<str>c?"(?:[^"\\]|\\.)*") |
 (?P<local>%"(?:[^"\\]|\\.)*"|%[-a-zA-Z$._0-9]+) |
 (?P<glob>@"(?:[^"\\]|\\.)*"|@[-a-zA-Z$._0-9]+) |
 (?P<meta>!"[^"]*"|![-a-zA-Z$._0-9]*) |
 (?P<attr>\#[0-9]+) |
 (?P<comdat>\$"[^"]*"|\$[-a-zA-Z$._0-9]+) |
 (?P<hex>0x[KLMHR]?[0-9A-Fa-f]+) |
 (?P<float>[-+]?[0-9]+\.[0-9]*(?:[eE][-+]?[0-9]+)?) |
 (?P<int>-?[0-9]+) |
 (?P<dots>\.\.\.) |
 (?P<word>[a-zA-Z_][a-zA-Z0-9_.]*) |
 (?P<punct>[()\[\]{}<>,=*:|])
''', re.X)

def tokenize(s):
    out = []
    pos = 0
    n = len(s)
    while pos < n:
        m = TOKEN.match(s, pos)
        if not m:
            raise SyntaxError("cannot tokenize: %r" % s[pos:pos+40])
        pos = m.end()
        k = m.lastgroup
        if k == 'ws':
            continue
        out.append((k, m.group(k)))
    return out

# ---------------------------------------------------------------- types
class Ty:
    pass
class IntT(Ty):
    __slots__ = ('bits',)
    def __init__(s, b): s.bits = b
    def __repr__(s): return 'i%d' % s.bits
class FloatT(Ty):
    __slots__ = ('bits',)
    def __init__(s, b): s.bits = b
    def __repr__(s): return 'f%d' % s.bits
class PtrT(Ty):
    __slots__ = ('to',)
    def __init__(s, t): s.to = t
    def __repr__(s): return 'ptr'
class ArrT(Ty):
    __slots__ = ('n', 'el')
    def __init__(s, n, el): s.n = n; s.el = el
    def __repr__(s): return '[%d x %r]' % (s.n, s.el)
class StructT(Ty):
    __slots__ = ('els', 'packed', 'name', '_lay')
    def __init__(s, els, packed=False, name=None): s.els = els; s.packed = packed; s.name = name; s._lay = None
    def __repr__(s): return 'struct(%s)' % (s.name or len(s.els or []))
class VoidT(Ty):
    def __repr__(s): return 'void'
class FuncT(Ty):
    __slots__ = ('ret', 'params', 'vararg')
    def __init__(s, r, p, v): s.ret = r; s.params = p; s.vararg = v
class LabelT(Ty): pass
class MetaT(Ty): pass

VOID = VoidT(); I1 = IntT(1); I8 = IntT(8); I32 = IntT(32); I64 = IntT(64)
_intcache = {1: I1, 8: I8, 32: I32, 64: I64}
def int_t(b):
    t = _intcache.get(b)
    if t is None:
        t = _intcache[b] = IntT(b)
    return t
F32 = FloatT(32); F64 = FloatT(64)

def sizeof(t):
    if isinstance(t, IntT): return (t.bits + 7) // 8 if t.bits not in (1,) else 1
    if isinstance(t, FloatT): return t.bits // 8
    if isinstance(t, PtrT): return 8
    if isinstance(t, ArrT): return t.n * sizeof(t.el)
    if isinstance(t, StructT): return layout(t)[0]
    raise TypeError("sizeof %r" % (t,))

def alignof(t):
    if isinstance(t, IntT):
        s = sizeof(t)
        a = 1
        while a < s and a < 8: a *= 2
        return a
    if isinstance(t, FloatT): return t.bits // 8
    if isinstance(t, PtrT): return 8
    if isinstance(t, ArrT): return alignof(t.el)
    if isinstance(t, StructT): return layout(t)[1]
    raise TypeError("alignof %r" % (t,))

def layout(st):
    if st._lay is None:
        if st.els is None:
            raise TypeError("opaque struct %s" % st.name)
        off = 0; offs = []; al = 1
        for e in st.els:
            a = 1 if st.packed else alignof(e)
            al = max(al, a)
            off = (off + a - 1) // a * a
            offs.append(off)
            off += sizeof(e)
        size = (off + al - 1) // al * al
        st._lay = (size, al, offs)
    return st._lay

# ---------------------------------------------------------------- constants / operands
class Const:      # fully evaluated constant python value (int bits / list for aggregates)
    __slots__ = ('v',)
    def __init__(s, v): s.v = v
class Reg:
    __slots__ = ('n',)
    def __init__(s, n): s.n = n
class GlobalRef:  # resolved at link time to an address
    __slots__ = ('n',)
    def __init__(s, n): s.n = n
class CExpr:      # constant expression, evaluated at link time
    __slots__ = ('op', 'args', 'ty', 'srcty')
    def __init__(s, op, args, ty=None, srcty=None): s.op = op; s.args = args; s.ty = ty; s.srcty = srcty
class Undef:
    pass
UNDEF = Undef()
class ZeroInit: pass
ZERO = ZeroInit()
class Agg:
    __slots__ = ('els',)
    def __init__(s, els): s.els = els   # list of (type, value)

class Instr:
    def __init__(s, op, dst=None, ty=None, args=None, extra=None, line=None):
        s.op = op; s.dst = dst; s.ty = ty; s.args = args; s.extra = extra; s.line = line
    def __repr__(s): return "<%s %s>" % (s.op, s.dst)

class Block:
    __slots__ = ('name', 'phis', 'instrs')
    def __init__(s, n): s.name = n; s.phis = []; s.instrs = []

class Function:
    def __init__(s, name, ret, params, vararg):
        s.name = name; s.ret = ret; s.params = params; s.vararg = vararg
        s.blocks = {}; s.entry = None; s.defined = False

class GlobalVar:
    def __init__(s, name, ty, init, const, external):
        s.name = name; s.ty = ty; s.init = init; s.const = const; s.external = external

class Module:
    def __init__(s):
        s.types = {}; s.globals = {}; s.funcs = {}; s.aliases = {}

PARAM_ATTRS = set('''noundef nonnull noalias nocapture readonly readnone writeonly signext zeroext inreg returned
 nest immarg swiftself swifterror nofree writable dead_on_unwind'''.split())
FN_ATTR_WORDS = set('''nounwind readnone readonly noreturn nobuiltin builtin cold willreturn mustprogress norecurse nosync nofree
 argmemonly inaccessiblememonly uwtable optnone noinline alwaysinline inlinehint speculatable convergent allocsize'''.split())
LINKAGE = set('''private internal available_externally linkonce weak common appending extern_weak linkonce_odr weak_odr external
 dso_local dso_preemptable default hidden protected unnamed_addr local_unnamed_addr thread_local dllimport dllexport externally_initialized'''.split())
FMF = set('fast nnan ninf nsz arcp contract afn reassoc'.split())
CCONV = set('ccc fastcc coldcc'.split())

def unescape(s):
    # s without quotes; LLVM escapes \XX
    out = bytearray(); i = 0
    b = s.encode('latin1')
    while i < len(b):
        if b[i] == 0x5c:
            if b[i+1] == 0x5c:
                out.append(0x5c); i += 2
            else:
                out.append(int(b[i+1:i+3], 16)); i += 3
        else:
            out.append(b[i]); i += 1
    return bytes(out)

def name_of(tok):
    v = tok[1:]
    if v.startswith('"'):
        return unescape(v[1:-1]).decode('latin1')
    return v

class P:
    def __init__(s, mod, toks, text=None):
        s.mod = mod; s.t = toks; s.i = 0; s.text = text
    def peek(s, k=0):
        j = s.i + k
        return s.t[j] if j < len(s.t) else ('eof', '')
    def next(s):
        t = s.t[s.i]; s.i += 1; return t
    def acc(s, v):
        if s.i < len(s.t) and s.t[s.i][1] == v:
            s.i += 1; return True
        return False
    def exp(s, v):
        if not s.acc(v):
            raise SyntaxError("expected %r got %r in %r" % (v, s.peek(), s.text))
    def at_end(s): return s.i >= len(s.t)

    # ---- types
    def type(s):
        k, v = s.next()
        if k == 'word':
            if v[0] == 'i' and v[1:].isdigit(): t = int_t(int(v[1:]))
            elif v == 'float': t = F32
            elif v == 'double': t = F64
            elif v == 'void': t = VOID
            elif v == 'label': t = LabelT()
            elif v == 'metadata': t = MetaT()
            elif v == 'x86_fp80': t = FloatT(128)
            elif v == 'opaque': t = StructT(None)
            elif v == 'ptr': t = PtrT(I8)
            else: raise SyntaxError("type? %r in %r" % (v, s.text))
        elif k == 'local':
            n = name_of(v)
            t = s.mod.types.get(n)
            if t is None:
                t = s.mod.types[n] = StructT(None, name=n)
        elif v == '[':
            n = int(s.next()[1]); s.exp('x'); el = s.type(); s.exp(']')
            t = ArrT(n, el)
        elif v == '{':
            t = StructT(s._structbody('}'))
        elif v == '<':
            if s.acc('{'):
                els = s._structbody('}'); s.exp('>')
                t = StructT(els, packed=True)
            else:
                # vector type <N x T>: handled as an array for whole-value load/store (element-wise vector arithmetic is not supported)
                n = int(s.next()[1]); s.exp('x'); el = s.type(); s.exp('>')
                t = ArrT(n, el)
        else:
            raise SyntaxError("type? %r in %r" % (v, s.text))
        while True:
            if s.acc('*'):
                t = PtrT(t)
            elif s.peek()[1] == '(' and not isinstance(t, LabelT):
                # function type
                s.next(); ps = []; va = False
                while not s.acc(')'):
                    if s.acc('...'): va = True
                    else: ps.append(s.type())
                    s.acc(',')
                t = FuncT(t, ps, va)
            elif s.peek()[1] == 'addrspace':
                s.next(); s.exp('('); s.next(); s.exp(')')
            else:
                break
        return t
    def _structbody(s, close):
        els = []
        while not s.acc(close):
            els.append(s.type()); s.acc(',')
        return els

    # ---- values
    def value(s, ty):
        k, v = s.next()
        if k == 'local': return Reg(name_of(v))
        if k == 'glob': return GlobalRef(name_of(v))
        if k == 'int':
            if isinstance(ty, IntT): return Const(int(v) & ((1 << ty.bits) - 1))
            if isinstance(ty, FloatT): return Const(fbits(float(v), ty.bits))
            return Const(int(v))
        if k == 'float':
            return Const(fbits(float(v), ty.bits))
        if k == 'hex':
            if v[2] in 'KLMHR': raise SyntaxError("fp80 const")
            d = int(v[2:], 16)
            if isinstance(ty, FloatT) and ty.bits == 32:
                return Const(fbits(struct.unpack('<d', struct.pack('<Q', d))[0], 32, raw64=d))
            return Const(d)
        if k == 'str':
            assert v[0] == 'c'
            return Const(list(unescape(v[2:-1])))
        if k == 'word':
            if v == 'true': return Const(1)
            if v == 'false': return Const(0)
            if v == 'null': return Const(0)
            if v in ('undef', 'poison'): return UNDEF
            if v == 'zeroinitializer': return ZERO
            if v in ('getelementptr',):
                inb = s.acc('inbounds'); s.exp('(')
                bt = s.type(); s.exp(',')
                args = []
                while True:
                    s.acc('inrange')
                    t = s.type(); a = s.value(t); args.append((t, a))
                    if not s.acc(','): break
                s.exp(')')
                return CExpr('gep', args, srcty=bt)
            if v in ('bitcast', 'ptrtoint', 'inttoptr', 'trunc', 'zext', 'sext', 'addrspacecast'):
                s.exp('('); t = s.type(); a = s.value(t); s.exp('to'); t2 = s.type(); s.exp(')')
                return CExpr(v, [(t, a)], ty=t2)
            if v in ('add', 'sub', 'mul', 'and', 'or', 'xor', 'shl', 'lshr', 'ashr'):
                while s.peek()[1] in ('nuw', 'nsw', 'exact'): s.next()
                s.exp('('); t = s.type(); a = s.value(t); s.exp(','); t2 = s.type(); b = s.value(t2); s.exp(')')
                return CExpr(v, [(t, a), (t2, b)], ty=t)
            raise SyntaxError("const word %r in %r" % (v, s.text))
        if v == '[':
            els = []
            while not s.acc(']'):
                t = s.type(); els.append((t, s.value(t))); s.acc(',')
            return Agg(els)
        if v == '{':
            els = []
            while not s.acc('}'):
                t = s.type(); els.append((t, s.value(t))); s.acc(',')
            return Agg(els)
        if v == '<':
            if s.acc('{'):
                els = []
                while not s.acc('}'):
                    t = s.type(); els.append((t, s.value(t))); s.acc(',')
                s.exp('>')
                return Agg(els)
            els = []
            while not s.acc('>'):
                t = s.type(); els.append((t, s.value(t))); s.acc(',')
            return Agg(els)
        if k == 'meta': return Const(0)
        raise SyntaxError("value? %r %r in %r" % (k, v, s.text))

    def tyval(s):
        t = s.type()
        while s.peek()[0] == 'word' and (s.peek()[1] in PARAM_ATTRS or s.peek()[1] in ('align', 'dereferenceable', 'dereferenceable_or_null', 'byval', 'sret', 'inalloca', 'preallocated', 'byref', 'elementtype')):
            w = s.next()[1]
            if w == 'align':
                s.next()
            elif s.peek()[1] == '(':
                s.skip_parens()
        return t, s.value(t)
    def skip_parens(s):
        s.exp('('); d = 1
        while d:
            v = s.next()[1]
            if v == '(': d += 1
            elif v == ')': d -= 1

def fbits(x, bits, raw64=None):
    if bits == 32:
        if raw64 is not None and x != x:
            # NaN given as double hex: convert payload manually
            sign = raw64 >> 63; mant = (raw64 >> 29) & 0x7fffff
            return (sign << 31) | (0xff << 23) | (mant or 0x400000)
        return struct.unpack('<I', struct.pack('<f', x))[0]
    return struct.unpack('<Q', struct.pack('<d', x))[0]

# ---------------------------------------------------------------- module-level parse
LABEL_RE = re.compile(r'^("(?:[^"\\]|\\.)*"|[-a-zA-Z$._0-9]+):')

def parse_module(text):
    mod = Module()
    lines = text.split('\n')
    i = 0; n = len(lines)
    # first pass: named types (so that forward refs resolve to same object)
    while i < n:
        ln = lines[i]
        if not ln or ln[0] in ';!' or ln.startswith('source_filename') or ln.startswith('target ') or ln.startswith('attributes ') or ln[0] == '$':
            i += 1; continue
        if ln[0] == '%':
            toks = tokenize(ln); p = P(mod, toks, ln)
            nm = name_of(p.next()[1]); p.exp('='); p.exp('type')
            t = p.type()
            ex = mod.types.get(nm)
            if ex is None:
                if isinstance(t, StructT): t.name = nm
                mod.types[nm] = t
            else:
                ex.els = t.els; ex.packed = t.packed
            i += 1; continue
        if ln[0] == '@':
            parse_global(mod, ln); i += 1; continue
        if ln.startswith('declare'):
            parse_fn_header(mod, ln, False); i += 1; continue
        if ln.startswith('define'):
            f = parse_fn_header(mod, ln, True)
            i += 1
            cur = None; first_label = None
            while lines[i] != '}':
                l = lines[i]; i += 1
                if not l.strip() or l.lstrip().startswith(';'): continue
                m = LABEL_RE.match(l)
                if m:
                    nm = m.group(1)
                    if nm.startswith('"'): nm = unescape(nm[1:-1]).decode('latin1')
                    cur = Block(nm); f.blocks[nm] = cur
                    continue
                if cur is None:
                    # implicit entry label: number after params
                    cur = Block(f.implicit_entry); f.blocks[cur.name] = cur
                if f.entry is None: f.entry = cur.name
                # multi-line instrs (invoke/landingpad/switch)
                s = l
                st = s.strip()
                if st.startswith('invoke') or ' invoke ' in st.split('(')[0] + ' ':
                    while ' unwind label ' not in s:
                        s += ' ' + lines[i].strip(); i += 1
                elif 'landingpad' in st.split('"')[0]:
                    while i < n and lines[i].strip().split(' ')[0] in ('cleanup', 'catch', 'filter'):
                        s += ' ' + lines[i].strip(); i += 1
                elif st.startswith('switch'):
                    while not s.rstrip().endswith(']'):
                        s += ' ' + lines[i].strip(); i += 1
                ins = parse_instr(mod, s)
                if ins.op == 'phi': cur.phis.append(ins)
                else: cur.instrs.append(ins)
            i += 1; continue
        i += 1
    return mod

def parse_global(mod, ln):
    toks = tokenize(ln); p = P(mod, toks, ln)
    nm = name_of(p.next()[1]); p.exp('=')
    external = False
    while p.peek()[0] == 'word' and p.peek()[1] in LINKAGE:
        w = p.next()[1]
        if w in ('external', 'extern_weak'): external = True
        if w == 'thread_local' and p.peek()[1] == '(': p.skip_parens()
    if p.acc('alias'):
        t = p.type(); p.exp(',')
        t2 = p.type(); v = p.value(t2)
        mod.aliases[nm] = v
        return
    const = False
    if p.acc('constant'): const = True
    else: p.exp('global')
    ty = p.type()
    init = None
    if not external and not p.at_end() and p.peek()[1] != ',':
        init = p.value(ty)
    mod.globals[nm] = GlobalVar(nm, ty, init, const, external)

def parse_fn_header(mod, ln, defined):
    toks = tokenize(ln); p = P(mod, toks, ln)
    p.next()
    while p.peek()[0] == 'word' and (p.peek()[1] in LINKAGE or p.peek()[1] in CCONV or p.peek()[1] in PARAM_ATTRS or p.peek()[1] in ('align', 'dereferenceable', 'dereferenceable_or_null')):
        w = p.next()[1]
        if w == 'align': p.next()
        elif p.peek()[1] == '(': p.skip_parens()
    ret = p.type()
    nm = name_of(p.next()[1])
    p.exp('(')
    params = []; va = False; k = 0
    while not p.acc(')'):
        if p.acc('...'):
            va = True; p.acc(','); continue
        t = p.type()
        while p.peek()[0] == 'word' and p.peek()[1] != 'x':
            w = p.next()[1]
            if w == 'align': p.next()
            elif p.peek()[1] == '(': p.skip_parens()
        if p.peek()[0] == 'local':
            pn = name_of(p.next()[1])
        else:
            pn = str(k)
        params.append((t, pn)); k += 1
        p.acc(',')
    f = mod.funcs.get(nm)
    if f is None or defined:
        f = Function(nm, ret, params, va); mod.funcs[nm] = f
    f.defined = defined
    # implicit entry block label = number of unnamed values so far
    cnt = sum(1 for (_, pn) in params if pn.isdigit())
    f.implicit_entry = str(cnt)
    return f

BINOPS = set('add sub mul udiv sdiv urem srem and or xor shl lshr ashr'.split())
FBINOPS = set('fadd fsub fmul fdiv frem'.split())
CASTS = set('trunc zext sext fptrunc fpext fptoui fptosi uitofp sitofp ptrtoint inttoptr bitcast addrspacecast'.split())

def parse_instr(mod, ln):
    toks = tokenize(ln)
    # strip trailing metadata: ", !tbaa !3"
    for j, (k, v) in enumerate(toks):
        if k == 'meta' and j > 0 and toks[j-1][1] == ',':
            toks = toks[:j-1]; break
    p = P(mod, toks, ln)
    dst = None
    if p.peek()[0] == 'local' and p.peek(1)[1] == '=':
        dst = name_of(p.next()[1]); p.next()
    op = p.next()[1]
    if op in ('tail', 'musttail', 'notail'):
        op = p.next()[1]
    if op in BINOPS:
        flags = []
        while p.peek()[1] in ('nuw', 'nsw', 'exact'): flags.append(p.next()[1])
        t = p.type(); a = p.value(t); p.exp(','); b = p.value(t)
        return Instr(op, dst, t, [a, b], flags, ln)
    if op in FBINOPS or op == 'fneg':
        while p.peek()[1] in FMF: p.next()
        t = p.type(); a = p.value(t)
        if op == 'fneg': return Instr(op, dst, t, [a], None, ln)
        p.exp(','); b = p.value(t)
        return Instr(op, dst, t, [a, b], None, ln)
    if op in ('icmp', 'fcmp'):
        while p.peek()[1] in FMF: p.next()
        pred = p.next()[1]; t = p.type(); a = p.value(t); p.exp(','); b = p.value(t)
        return Instr(op, dst, t, [a, b], pred, ln)
    if op in CASTS:
        t = p.type(); a = p.value(t); p.exp('to'); t2 = p.type()
        return Instr(op, dst, t2, [a], t, ln)
    if op == 'alloca':
        p.acc('inalloca')
        t = p.type(); cnt = Const(1)
        while p.acc(','):
            if p.acc('align'): p.next()
            elif p.acc('addrspace'): p.skip_parens()
            else:
                ct = p.type(); cnt = p.value(ct)
        return Instr(op, dst, t, [cnt], None, ln)
    if op == 'load':
        atomic = p.acc('atomic'); p.acc('volatile')
        t = p.type(); p.exp(','); pt = p.type(); a = p.value(pt)
        return Instr(op, dst, t, [a], None, ln)
    if op == 'store':
        atomic = p.acc('atomic'); p.acc('volatile')
        t = p.type(); v = p.value(t); p.exp(','); pt = p.type(); a = p.value(pt)
        return Instr(op, None, t, [v, a], None, ln)
    if op == 'getelementptr':
        inb = p.acc('inbounds')
        bt = p.type(); p.exp(',')
        pt = p.type(); base = p.value(pt)
        idx = []
        while p.acc(','):
            it = p.type(); idx.append((it, p.value(it)))
        return Instr(op, dst, bt, [base], (idx, inb), ln)
    if op == 'phi':
        while p.peek()[1] in FMF: p.next()
        t = p.type(); inc = []
        while True:
            p.exp('['); v = p.value(t); p.exp(','); l = name_of(p.next()[1]); p.exp(']')
            inc.append((v, l))
            if not p.acc(','): break
        return Instr(op, dst, t, None, inc, ln)
    if op == 'select':
        while p.peek()[1] in FMF: p.next()
        ct = p.type(); c = p.value(ct); p.exp(','); t = p.type(); a = p.value(t); p.exp(','); t2 = p.type(); b = p.value(t2)
        return Instr(op, dst, t, [c, a, b], None, ln)
    if op == 'br':
        if p.acc('label'):
            return Instr('br', None, None, None, name_of(p.next()[1]), ln)
        t = p.type(); c = p.value(t); p.exp(','); p.exp('label'); l1 = name_of(p.next()[1]); p.exp(','); p.exp('label'); l2 = name_of(p.next()[1])
        return Instr('condbr', None, None, [c], (l1, l2), ln)
    if op == 'switch':
        t = p.type(); v = p.value(t); p.exp(','); p.exp('label'); d = name_of(p.next()[1]); p.exp('[')
        cases = []
        while not p.acc(']'):
            ct = p.type(); cv = p.value(ct); p.exp(','); p.exp('label'); cases.append((cv.v, name_of(p.next()[1])))
        return Instr(op, None, t, [v], (d, cases), ln)
    if op == 'ret':
        t = p.type()
        if isinstance(t, VoidT): return Instr(op, None, t, [], None, ln)
        return Instr(op, None, t, [p.value(t)], None, ln)
    if op == 'unreachable':
        return Instr(op, None, None, [], None, ln)
    if op == 'resume':
        t = p.type(); return Instr(op, None, t, [p.value(t)], None, ln)
    if op in ('call', 'invoke'):
        while p.peek()[0] == 'word' and (p.peek()[1] in FMF or p.peek()[1] in CCONV or p.peek()[1] in PARAM_ATTRS or p.peek()[1] in ('align', 'dereferenceable', 'dereferenceable_or_null')):
            w = p.next()[1]
            if w == 'align': p.next()
            elif p.peek()[1] == '(': p.skip_parens()
        rt = p.type()
        if isinstance(rt, FuncT): rt = rt.ret
        elif isinstance(rt, PtrT) and isinstance(rt.to, FuncT) and p.peek()[0] in ('local', 'glob') and p.peek(1)[1] == '(':
            pass
        callee_t = None
        k, v = p.peek()
        if k == 'glob': callee = GlobalRef(name_of(p.next()[1]))
        elif k == 'local': callee = Reg(name_of(p.next()[1]))
        elif v in ('bitcast',):
            callee = p.value(None)
        elif v == 'asm':
            raise SyntaxError("inline asm: %r" % ln)
        else:
            raise SyntaxError("callee? %r" % ln)
        p.exp('(')
        args = []
        while not p.acc(')'):
            t, a = p.tyval(); args.append((t, a)); p.acc(',')
        labels = None
        # skip fn attrs / bundles
        while not p.at_end():
            k, v = p.peek()
            if v == 'to' and op == 'invoke':
                p.next(); p.exp('label'); l1 = name_of(p.next()[1]); p.exp('unwind'); p.exp('label'); l2 = name_of(p.next()[1])
                labels = (l1, l2); break
            if v == '[':
                # operand bundle
                d = 0
                while True:
                    vv = p.next()[1]
                    if vv == '[': d += 1
                    elif vv == ']':
                        d -= 1
                        if d == 0: break
                continue
            p.next()
            if p.peek()[1] == '(' and v in ('allocsize',): p.skip_parens()
        return Instr(op, dst, rt, [callee] + [a for (_, a) in args], ([t for (t, _) in args], labels), ln)
    if op == 'landingpad':
        t = p.type(); cleanup = False; clauses = []
        while not p.at_end():
            w = p.next()[1]
            if w == 'cleanup': cleanup = True
            elif w == 'catch':
                ct = p.type(); clauses.append(('catch', p.value(ct)))
            elif w == 'filter':
                ct = p.type(); clauses.append(('filter', p.value(ct)))
        return Instr(op, dst, t, [], (cleanup, clauses), ln)
    if op == 'extractvalue':
        t = p.type(); a = p.value(t); idx = []
        while p.acc(','): idx.append(int(p.next()[1]))
        return Instr(op, dst, t, [a], idx, ln)
    if op == 'insertvalue':
        t = p.type(); a = p.value(t); p.exp(','); t2 = p.type(); b = p.value(t2); idx = []
        while p.acc(','): idx.append(int(p.next()[1]))
        return Instr(op, dst, t, [a, b], idx, ln)
    if op == 'atomicrmw':
        p.acc('volatile'); bop = p.next()[1]
        pt = p.type(); a = p.value(pt); p.exp(','); t = p.type(); v = p.value(t)
        return Instr(op, dst, t, [a, v], bop, ln)
    if op == 'cmpxchg':
        p.acc('weak'); p.acc('volatile')
        pt = p.type(); a = p.value(pt); p.exp(','); t = p.type(); c = p.value(t); p.exp(','); t2 = p.type(); nv = p.value(t2)
        return Instr(op, dst, t, [a, c, nv], None, ln)
    if op == 'fence':
        return Instr(op, None, None, [], None, ln)
    if op == 'freeze':
        t = p.type(); a = p.value(t); return Instr(op, dst, t, [a], None, ln)
    raise SyntaxError("unknown instr %r in %r" % (op, ln))
