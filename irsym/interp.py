# irsym interpreter: pre-decoded closures per IR instruction, run loop, C++ unwinding.
import bisect, math, time
import z3
from .irparse import *
from .core import *

def getter(eng, v):
    if isinstance(v, Reg):
        n = v.n
        return lambda fr: fr.regs[n]
    c = eng.cval(v)
    return lambda fr: c

ICMP_C = {
 'eq': lambda a, b, n: a == b, 'ne': lambda a, b, n: a != b,
 'ugt': lambda a, b, n: a > b, 'uge': lambda a, b, n: a >= b, 'ult': lambda a, b, n: a < b, 'ule': lambda a, b, n: a <= b,
 'sgt': lambda a, b, n: sx(a, n) > sx(b, n), 'sge': lambda a, b, n: sx(a, n) >= sx(b, n),
 'slt': lambda a, b, n: sx(a, n) < sx(b, n), 'sle': lambda a, b, n: sx(a, n) <= sx(b, n)}
ICMP_S = {
 'eq': lambda a, b: a == b, 'ne': lambda a, b: a != b,
 'ugt': z3.UGT, 'uge': z3.UGE, 'ult': z3.ULT, 'ule': z3.ULE,
 'sgt': lambda a, b: a > b, 'sge': lambda a, b: a >= b, 'slt': lambda a, b: a < b, 'sle': lambda a, b: a <= b}

class PathResult:
    """one finished path"""
    __slots__ = ('st', 'kind', 'info')
    def __init__(s, st, kind, info): s.st = st; s.kind = kind; s.info = info
    def __repr__(s): return '<path %s %r>' % (s.kind, s.info)

def run(eng, st, maxsteps=50_000_000, wall=1e9, maxpaths=100000, on_path=None):
    """Run state st to completion, forking (DFS).  Returns [PathResult]; a final PathResult of kind
    'TIMEOUT' marks an exploration that was cut (never to be read as success)."""
    done = []
    work = [st]
    t0 = time.time()
    while work:
        if time.time() - t0 > wall or len(done) >= maxpaths:
            done.append(PathResult(None, 'TIMEOUT', 'exploration cut with %d states left after %d paths, %.0f s' % (len(work), len(done), time.time() - t0))); break
        st = work.pop()
        st.deadline = t0 + wall
        try:
            step_loop(eng, st, work, maxsteps)
        except PathEnd as e:
            if e.kind != 'infeasible':
                r = PathResult(st, e.kind, e.info); done.append(r)
                if on_path: on_path(r)
        except Unsupported as e:
            r = PathResult(st, 'unsupported', str(e) + ' in ' + (st.frames[-1].fn.name if st.frames else '?')); done.append(r)
            if on_path: on_path(r)
        except Inconclusive as e:
            r = PathResult(st, 'inconclusive', str(e)); done.append(r)
            if on_path: on_path(r)
    return done

def do_ret(eng, st, val):
    fr = st.frames.pop()
    for a in fr.allocas:
        o = st.mem.get(a)
        if o is not None:
            del st.mem[a]
            i = bisect.bisect_left(st.bases, a); del st.bases[i]
    if not st.frames:
        raise PathEnd('return', val)
    caller = st.frames[-1]
    ci = fr.callins
    if ci.dst is not None: caller.regs[ci.dst] = val
    if ci.op == 'invoke':
        goto(caller, ci.extra[1][0])

def goto(fr, label):
    fr.prev = fr.block.name; blk = fr.fn.blocks[label]; fr.block = blk; fr.ip = 0
    if blk.phis:
        vals = []
        for ph in blk.phis:
            for g, l in ph.extra:
                if l == fr.prev:
                    vals.append(g(fr)); break
            else:
                raise Unsupported("phi no incoming")
        for ph, v in zip(blk.phis, vals): fr.regs[ph.dst] = v

def unwind(eng, st):
    """exception in flight: find handler."""
    while st.frames:
        fr = st.frames[-1]
        ci = getattr(fr, '_pending_invoke', None)
        # the frame at top is the one whose call raised; its current instruction is at ip-1
        ins = fr.block.instrs[fr.ip - 1] if fr.ip > 0 else None
        if ins is not None and ins.op == 'invoke':
            lp_label = ins.extra[1][1]
            blk = fr.fn.blocks[lp_label]
            lp = blk.instrs[0]
            assert lp.op == 'landingpad'
            cleanup, clauses = lp.extra
            sel = 0
            for kind, tv in clauses:
                if kind == 'catch':
                    ta = tv(fr)
                    if ta == 0 or eng.type_matches(st.exc[1], ta):
                        sel = eng.typeid(ta) if ta else 1; break
            if cleanup or sel:
                goto(fr, lp_label)
                fr.regs[lp.dst] = [st.exc[0], sel]
                fr.ip = 1
                return
        # pop frame
        for a in fr.allocas:
            if a in st.mem:
                del st.mem[a]; i = bisect.bisect_left(st.bases, a); del st.bases[i]
        st.frames.pop()
    raise PathEnd('uncaught', eng.fname(st.exc[1]))

def push_call(eng, st, fn, args, callins):
    f = eng.mod.funcs[fn]
    fr = Frame(f); fr.callins = callins
    for (t, pn), a in zip(f.params, args): fr.regs[pn] = a
    if f.vararg: fr.va = args[len(f.params):]
    fr.block = f.blocks[f.entry]; fr.ip = 0
    st.frames.append(fr)
    eng.fn_executed.add(fn)
    if len(st.frames) > 400: raise PathEnd('budget', 'call depth > 400 (runaway recursion) in ' + fn)

def step_loop(eng, st, work, maxsteps):
    frames = st.frames
    n = st.nsteps; chk = n + 200000
    try:
        while True:
            fr = frames[-1]
            ins = fr.block.instrs[fr.ip]; fr.ip += 1
            n += 1
            if n > chk:
                st.nsteps = n
                if n > maxsteps: raise PathEnd('budget', 'more than %d IR steps on one path' % maxsteps)
                if time.time() > st.deadline: raise PathEnd('budget', 'wall budget exhausted inside a path')
                chk = n + 200000
            ins.run(eng, st, fr, work)
    finally:
        st.nsteps = n

# Instr.run dispatch installed by compile_module
def compile_module(eng):
    for f in eng.mod.funcs.values():
        for b in f.blocks.values():
            for ph in b.phis:
                ph.extra = [(getter(eng, v), l) for (v, l) in ph.extra]
            for ins in b.instrs:
                compile_instr(eng, f, ins)

def compile_instr(eng, f, ins):
    op = ins.op
    h = globals().get('c_' + op)
    if h is None:
        if op in BINOPS: h = c_binop
        elif op in FBINOPS: h = c_fbinop
        elif op in CASTS: h = c_cast
        else:
            # unsupported IR is loud, but only on the paths that execute it: the path ends as 'unsupported' (never a pass)
            def bad(eng, st, fr, work, _op=op): raise Unsupported("IR instruction '%s' is not implemented by the engine" % _op)
            ins.run = bad; return
    ins.run = h(eng, f, ins)

def c_binop(eng, f, ins):
    a = getter(eng, ins.args[0]); b = getter(eng, ins.args[1]); dst = ins.dst; op = ins.op
    bits = ins.ty.bits; mask = (1 << bits) - 1; flags = ins.extra
    nsw = 'nsw' in flags; nuw = 'nuw' in flags; isdiv = op in ('udiv', 'sdiv', 'urem', 'srem')
    def conc(x, y):
        if op == 'add': return (x + y) & mask
        if op == 'sub': return (x - y) & mask
        if op == 'mul': return (x * y) & mask
        if op == 'and': return x & y
        if op == 'or': return x | y
        if op == 'xor': return x ^ y
        if op == 'shl': return (x << y) & mask if y < bits else 0
        if op == 'lshr': return x >> y if y < bits else 0
        if op == 'ashr': return (sx(x, bits) >> min(y, bits - 1)) & mask
        if op == 'udiv': return x // y
        if op == 'urem': return x % y
        if op == 'sdiv':
            p, q = sx(x, bits), sx(y, bits); r = abs(p) // abs(q)
            return (r if (p < 0) == (q < 0) else -r) & mask
        if op == 'srem':
            p, q = sx(x, bits), sx(y, bits); r = abs(p) % abs(q)
            return (r if p >= 0 else -r) & mask
    def sym(x, y):
        if bits == 1:
            x = tobool(x); y = tobool(y)
            if op == 'and': return z3.And(x, y)
            if op == 'or': return z3.Or(x, y)
            if op == 'xor': return z3.Xor(x, y)
            raise Unsupported("i1 " + op)
        x = tobv(x, bits); y = tobv(y, bits)
        if op == 'add': return x + y
        if op == 'sub': return x - y
        if op == 'mul': return x * y
        if op == 'and': return x & y
        if op == 'or': return x | y
        if op == 'xor': return x ^ y
        if op == 'shl': return x << y
        if op == 'lshr': return z3.LShR(x, y)
        if op == 'ashr': return x >> y
        if op == 'udiv': return z3.UDiv(x, y)
        if op == 'urem': return z3.URem(x, y)
        if op == 'sdiv': return x / y
        if op == 'srem': return z3.SRem(x, y)
    def run(eng, st, fr, work):
        x = a(fr); y = b(fr)
        if type(x) is int and type(y) is int:
            if op in ('udiv', 'sdiv', 'urem', 'srem') and y == 0: raise PathEnd('ub', ('division-by-zero', f.name))
            r = conc(x, y)
            if nsw and op in ('add', 'sub', 'mul'):
                p, q = sx(x, bits), sx(y, bits)
                e = p + q if op == 'add' else p - q if op == 'sub' else p * q
                if not (-(1 << (bits - 1)) <= e < (1 << (bits - 1))):
                    st.events.append(('signed-overflow', f.name, ins.line.strip()[:80]))
            fr.regs[dst] = r
        else:
            if isdiv:
                yz = simp(tobv(y, bits) == 0)
                if type(yz) is int:
                    if yz: raise PathEnd('ub', ('division-by-zero', f.name))
                else:
                    outs = eng.branch(st, yz)
                    for s2, tv in outs:
                        if s2 is not st:
                            s2.frames[-1].ip -= 1; work.append(s2)
                    if outs[0][1]: raise PathEnd('ub', ('division-by-zero', f.name))
            fr.regs[dst] = simp(sym(x, y))
    return run

def c_fbinop(eng, f, ins):
    a = getter(eng, ins.args[0]); b = getter(eng, ins.args[1]); dst = ins.dst; op = ins.op; bits = ins.ty.bits
    def run(eng, st, fr, work):
        x = a(fr); y = b(fr)
        if type(x) is int and type(y) is int:
            p = bits_to_f(x, bits); q = bits_to_f(y, bits)
            try:
                r = p + q if op == 'fadd' else p - q if op == 'fsub' else p * q if op == 'fmul' else (p / q)
            except ZeroDivisionError:
                r = math.nan if (p == 0 or p != p) else math.copysign(math.inf, p) * math.copysign(1, q)
            except OverflowError:
                r = math.inf
            fr.regs[dst] = f_to_bits(r, bits)
        else:
            X = tofp(x, bits); Y = tofp(y, bits); rm = z3.RNE()
            r = z3.fpAdd(rm, X, Y) if op == 'fadd' else z3.fpSub(rm, X, Y) if op == 'fsub' else z3.fpMul(rm, X, Y) if op == 'fmul' else z3.fpDiv(rm, X, Y)
            fr.regs[dst] = z3.fpToIEEEBV(r)
    return run

def _fptoui64_site(f, ins):
    """ordinal of this float -> unsigned 64-bit conversion among those of its function (identifies the source site: x86-64 has no such
    instruction before AVX-512, every compiler emits its own sequence, and the sequences disagree on operands >= 2^64)"""
    k = 0
    for b in f.blocks.values():
        for i in b.instrs:
            if i is ins: return k
            if i.op == 'fptoui' and getattr(i.ty, 'bits', 0) == 64: k += 1
    return k

def c_cast(eng, f, ins):
    a = getter(eng, ins.args[0]); dst = ins.dst; op = ins.op; to = ins.ty; frm = ins.extra
    site64 = _fptoui64_site(f, ins) if op == 'fptoui' and getattr(to, 'bits', 0) == 64 else None
    def run(eng, st, fr, work):
        x = a(fr)
        if op in ('bitcast', 'ptrtoint', 'inttoptr', 'addrspacecast'):
            if op == 'ptrtoint' and to.bits < 64:
                x = x & ((1 << to.bits) - 1) if type(x) is int else z3.Extract(to.bits - 1, 0, x)
            elif op == 'inttoptr' and frm.bits < 64:
                x = x if type(x) is int else z3.ZeroExt(64 - frm.bits, x)
            fr.regs[dst] = x; return
        if type(x) is int:
            if op == 'trunc': r = x & ((1 << to.bits) - 1)
            elif op == 'zext': r = x
            elif op == 'sext': r = sx(x, frm.bits) & ((1 << to.bits) - 1)
            elif op == 'uitofp': r = f_to_bits(float(x), to.bits)
            elif op == 'sitofp': r = f_to_bits(float(sx(x, frm.bits)), to.bits)
            elif op in ('fptosi', 'fptoui'):
                v = bits_to_f(x, frm.bits)
                lo, hi = (-(1 << (to.bits - 1)), (1 << (to.bits - 1)) - 1) if op == 'fptosi' else (0, (1 << to.bits) - 1)
                if v != v or v == math.inf or v == -math.inf or not (lo - 1 < v < hi + 1):
                    st.events.append(('fp-to-int-out-of-range', f.name, ins.line.strip()[:80]))
                    if site64 is not None and v == v and v >= 2.0 ** 64: st.events.append(('fptoui64-beyond-range', f.name, site64, True))
                    # x86-64 cvttsd2si: "integer indefinite"
                    r = 1 << (to.bits - 1) if to.bits in (32, 64) else 0
                    if op == 'fptoui' and to.bits == 64 and v == v and v >= 2 ** 63 and v < 2 ** 64: r = int(v)
                    if op == 'fptoui' and to.bits == 64 and v == v and -(2 ** 63) < v < 0: r = int(v) & ((1 << 64) - 1)     # signed cvttss2si result reinterpreted
                else:
                    r = int(v) & ((1 << to.bits) - 1)
            # NaNs: x86-64 cvtss2sd / cvtsd2ss keep sign and payload and SET the quiet bit (a signalling NaN comes out quiet)
            elif op == 'fpext': r = f_to_bits(bits_to_f(x, 32), 64) if (x & 0x7f800000) != 0x7f800000 or not (x & 0x7fffff) else ((x >> 31) << 63) | (0x7ff << 52) | (1 << 51) | ((x & 0x3fffff) << 29)
            elif op == 'fptrunc': r = f_to_bits(bits_to_f(x, 64), 32) if (x >> 52) & 0x7ff != 0x7ff or not (x & ((1 << 52) - 1)) else ((x >> 63) << 31) | 0x7f800000 | 0x400000 | ((x >> 29) & 0x3fffff)
            else: raise Unsupported(op)
            fr.regs[dst] = r
        else:
            if op == 'trunc':
                r = z3.Extract(to.bits - 1, 0, x) if to.bits > 1 else (z3.Extract(0, 0, x) == 1)
            elif op == 'zext': r = z3.ZeroExt(to.bits - frm.bits, tobv(x, frm.bits))
            elif op == 'sext': r = z3.SignExt(to.bits - frm.bits, tobv(x, frm.bits))
            elif op == 'fpext':
                # SMT-LIB has one NaN; the machine keeps sign and payload and sets the quiet bit (x86-64 cvtss2sd)
                xb = tobv(x, 32)
                isnan = z3.And(z3.Extract(30, 23, xb) == 0xff, z3.Extract(22, 0, xb) != 0)
                nanbits = z3.Concat(z3.Extract(31, 31, xb), z3.BitVecVal(0x7ff, 11), z3.BitVecVal(1, 1), z3.Extract(21, 0, xb), z3.BitVecVal(0, 29))
                r = z3.If(isnan, nanbits, z3.fpToIEEEBV(z3.fpFPToFP(z3.RNE(), tofp(x, 32), z3.Float64())))
            elif op == 'fptrunc':
                xb = tobv(x, 64)
                isnan = z3.And(z3.Extract(62, 52, xb) == 0x7ff, z3.Extract(51, 0, xb) != 0)
                nanbits = z3.Concat(z3.Extract(63, 63, xb), z3.BitVecVal(0xff, 8), z3.BitVecVal(1, 1), z3.Extract(50, 29, xb))
                r = z3.If(isnan, nanbits, z3.fpToIEEEBV(z3.fpFPToFP(z3.RNE(), tofp(x, 64), z3.Float32())))
            elif op in ('fptosi', 'fptoui'):
                # SMT-LIB leaves out-of-range / NaN conversions unspecified; the machine does not: x86-64 "integer indefinite"
                X = tofp(x, frm.bits); S_ = fpsort(frm.bits); nb = to.bits
                indef = z3.BitVecVal(1 << (nb - 1), nb)
                lo = z3.FPVal(-(2.0 ** (nb - 1)), S_); hi = z3.FPVal(2.0 ** (nb - 1), S_)
                in_s = z3.And(z3.Not(z3.fpIsNaN(X)), z3.fpGEQ(X, lo), z3.fpLT(X, hi))         # trunc(x) fits the signed type (lo itself is exact)
                sv = z3.fpToSBV(z3.RTZ(), X, z3.BitVecSort(nb))
                if op == 'fptosi' or nb != 64:
                    if op == 'fptoui':
                        hi2 = z3.FPVal(2.0 ** nb, S_)
                        r = z3.If(z3.And(z3.Not(z3.fpIsNaN(X)), z3.fpGT(X, z3.FPVal(-1.0, S_)), z3.fpLT(X, hi2)), z3.fpToUBV(z3.RTZ(), X, z3.BitVecSort(nb)), indef)
                    else:
                        r = z3.If(in_s, sv, indef)
                else:
                    hi2 = z3.FPVal(2.0 ** 64, S_)
                    if getattr(eng, 'track_fptoui64', False):
                        st.events.append(('fptoui64-beyond-range', f.name, site64, z3.And(z3.Not(z3.fpIsNaN(X)), z3.fpGEQ(X, hi2))))
                    r = z3.If(in_s, sv, z3.If(z3.And(z3.Not(z3.fpIsNaN(X)), z3.fpGEQ(X, hi), z3.fpLT(X, hi2)), z3.fpToUBV(z3.RTZ(), X, z3.BitVecSort(nb)), indef))
            elif op == 'uitofp': r = z3.fpToIEEEBV(z3.fpToFPUnsigned(z3.RNE(), tobv(x, frm.bits), fpsort(to.bits)))
            elif op == 'sitofp': r = z3.fpToIEEEBV(z3.fpToFP(z3.RNE(), tobv(x, frm.bits), fpsort(to.bits)))
            else: raise Unsupported(op)
            fr.regs[dst] = simp(r)
    return run

def c_icmp(eng, f, ins):
    a = getter(eng, ins.args[0]); b = getter(eng, ins.args[1]); dst = ins.dst
    bits = 64 if isinstance(ins.ty, PtrT) else ins.ty.bits
    fc = ICMP_C[ins.extra]; fs = ICMP_S[ins.extra]
    def run(eng, st, fr, work):
        x = a(fr); y = b(fr)
        if type(x) is int and type(y) is int: fr.regs[dst] = 1 if fc(x, y, bits) else 0
        else:
            if bits == 1: fr.regs[dst] = simp(fs(tobv(x, 1), tobv(y, 1)))
            else: fr.regs[dst] = simp(fs(tobv(x, bits), tobv(y, bits)))
    return run

def c_fcmp(eng, f, ins):
    a = getter(eng, ins.args[0]); b = getter(eng, ins.args[1]); dst = ins.dst; bits = ins.ty.bits; pred = ins.extra
    def run(eng, st, fr, work):
        x = a(fr); y = b(fr)
        if type(x) is int and type(y) is int:
            p = bits_to_f(x, bits); q = bits_to_f(y, bits); un = p != p or q != q
            base = pred[1:]
            r = {'eq': p == q, 'ne': p != q, 'gt': p > q, 'ge': p >= q, 'lt': p < q, 'le': p <= q, 'rd': not un, 'no': un}[base if pred not in ('ord', 'uno') else pred[1:]]
            if pred == 'ord': r = not un
            elif pred == 'uno': r = un
            elif pred[0] == 'u': r = r or un
            elif pred[0] == 'o': r = r and not un
            fr.regs[dst] = 1 if r else 0
        else:
            X = tofp(x, bits); Y = tofp(y, bits); un = z3.Or(z3.fpIsNaN(X), z3.fpIsNaN(Y))
            base = {'eq': z3.fpEQ, 'ne': z3.fpNEQ, 'gt': z3.fpGT, 'ge': z3.fpGEQ, 'lt': z3.fpLT, 'le': z3.fpLEQ}
            if pred == 'ord': r = z3.Not(un)
            elif pred == 'uno': r = un
            elif pred[0] == 'o': r = z3.And(z3.Not(un), base[pred[1:]](X, Y))
            else: r = z3.Or(un, base[pred[1:]](X, Y))
            fr.regs[dst] = simp(r)
    return run

def c_alloca(eng, f, ins):
    cnt = getter(eng, ins.args[0]); dst = ins.dst; es = sizeof(ins.ty)
    def run(eng, st, fr, work):
        n = cnt(fr)
        base = st.alloc(es * n, 'stack', f.name + ':' + dst)
        fr.allocas.append(base); fr.regs[dst] = base
    return run

def addr_of(eng, st, p, n, work, limit=64):
    if type(p) is int: return p
    p = simp(p)
    if type(p) is int: return p
    vals = eng.concretize(st, p, limit)
    if not vals: raise PathEnd('infeasible')
    if len(vals) == 1:
        return vals[0]            # implied by the path condition
    for v in vals[1:]:
        s2 = st.clone(); s2.pc.append(p == v); s2.model = None
        s2.frames[-1].ip -= 1
        work.append(s2)
    st.pc.append(p == vals[0]); st.model = None
    return vals[0]

def flat_fields(ty, off=0):
    if isinstance(ty, StructT):
        out = []
        for e, o in zip(ty.els, layout(ty)[2]): out.append(flat_fields(e, off + o))
        return out
    if isinstance(ty, ArrT):
        return [flat_fields(ty.el, off + k * sizeof(ty.el)) for k in range(ty.n)]
    return (off, sizeof(ty))
def agg_load(st, p, ff):
    if type(ff) is tuple: return st.load(p + ff[0], ff[1])
    return [agg_load(st, p, x) for x in ff]
def agg_store(st, p, ff, v):
    if type(ff) is tuple: st.store(p + ff[0], ff[1], v if type(v) is not list else 0); return
    for x, y in zip(ff, v if type(v) is list else [0] * len(ff)): agg_store(st, p, x, y)
def c_load(eng, f, ins):
    a = getter(eng, ins.args[0]); dst = ins.dst; ty = ins.ty
    if isinstance(ty, (StructT, ArrT)):
        ff = flat_fields(ty)
        def run(eng, st, fr, work): fr.regs[dst] = agg_load(st, a(fr), ff)
        return run
    n = sizeof(ty); isb = isinstance(ty, IntT) and ty.bits == 1
    def run(eng, st, fr, work):
        p = a(fr)
        if type(p) is not int: p = addr_of(eng, st, p, n, work)
        v = st.load(p, n)
        if isb: v = v & 1 if type(v) is int else (z3.Extract(0, 0, v) == 1)
        fr.regs[dst] = v
    return run

def c_store(eng, f, ins):
    v = getter(eng, ins.args[0]); a = getter(eng, ins.args[1]); ty = ins.ty
    if isinstance(ty, (StructT, ArrT)):
        ff = flat_fields(ty)
        def run(eng, st, fr, work): agg_store(st, a(fr), ff, v(fr))
        return run
    n = sizeof(ty)
    def run(eng, st, fr, work):
        p = a(fr)
        if type(p) is not int: p = addr_of(eng, st, p, n, work)
        st.store(p, n, v(fr))
    return run

def c_getelementptr(eng, f, ins):
    base = getter(eng, ins.args[0]); dst = ins.dst
    idx, inb = ins.extra; ty = ins.ty
    const_off = 0; dyn = []
    first = True
    for (it, iv) in idx:
        if first:
            esz = sizeof(ty); first = False
            if isinstance(iv, Const): const_off += sx(iv.v, it.bits) * esz
            else: dyn.append((getter(eng, iv), esz, it.bits))
        elif isinstance(ty, StructT):
            const_off += layout(ty)[2][iv.v]; ty = ty.els[iv.v]
        else:
            ty = ty.el; esz = sizeof(ty)
            if isinstance(iv, Const): const_off += sx(iv.v, it.bits) * esz
            else: dyn.append((getter(eng, iv), esz, it.bits))
    def run(eng, st, fr, work):
        p = base(fr)
        if type(p) is int:
            p = p + const_off
            for g, esz, bits in dyn:
                i = g(fr)
                if type(i) is int: p += sx(i, bits) * esz
                else:
                    i = tobv(i, bits)
                    if bits < 64: i = z3.SignExt(64 - bits, i)
                    p = z3.BitVecVal(p & M64, 64) + i * esz if type(p) is int else p + i * esz
            fr.regs[dst] = p & M64 if type(p) is int else simp(p)
        else:
            p = p + const_off
            for g, esz, bits in dyn:
                i = g(fr)
                if type(i) is int: p = p + sx(i, bits) * esz
                else:
                    i = tobv(i, bits)
                    if bits < 64: i = z3.SignExt(64 - bits, i)
                    p = p + i * esz
            fr.regs[dst] = simp(p)
    return run

def c_select(eng, f, ins):
    c = getter(eng, ins.args[0]); a = getter(eng, ins.args[1]); b = getter(eng, ins.args[2]); dst = ins.dst
    ty = ins.ty
    bits = 64 if isinstance(ty, PtrT) else getattr(ty, 'bits', None)
    def run(eng, st, fr, work):
        cv = c(fr)
        if type(cv) is int: fr.regs[dst] = a(fr) if cv else b(fr)
        else:
            x = a(fr); y = b(fr)
            if type(x) is list: raise Unsupported("select aggregate symbolic")
            if bits == 1: fr.regs[dst] = simp(z3.If(tobool(cv), tobool(x), tobool(y)))
            else: fr.regs[dst] = simp(z3.If(tobool(cv), tobv(x, bits), tobv(y, bits)))
    return run

def c_br(eng, f, ins):
    l = ins.extra
    def run(eng, st, fr, work): goto(fr, l)
    return run

def c_condbr(eng, f, ins):
    c = getter(eng, ins.args[0]); l1, l2 = ins.extra
    def run(eng, st, fr, work):
        cv = c(fr)
        if type(cv) is int:
            goto(fr, l1 if cv else l2); return
        cv = tobool(cv)
        outs = eng.branch(st, cv)
        for s2, tv in outs:
            goto(s2.frames[-1], l1 if tv else l2)
            if s2 is not st: work.append(s2)
        if outs[0][0] is not st: raise PathEnd('infeasible')
    return run

def c_switch(eng, f, ins):
    v = getter(eng, ins.args[0]); d, cases = ins.extra; tbl = dict(cases); bits = ins.ty.bits
    def run(eng, st, fr, work):
        x = v(fr)
        if type(x) is not int:
            x = addr_of(eng, st, x, 0, work)
        goto(fr, tbl.get(x, d))
    return run

def c_ret(eng, f, ins):
    g = getter(eng, ins.args[0]) if ins.args else None
    def run(eng, st, fr, work):
        do_ret(eng, st, g(fr) if g else None)
    return run

def c_unreachable(eng, f, ins):
    def run(eng, st, fr, work): raise PathEnd('abort', ('unreachable', f.name))
    return run

def c_resume(eng, f, ins):
    def run(eng, st, fr, work):
        # continue unwinding from the caller
        for a in fr.allocas:
            if a in st.mem:
                del st.mem[a]; i = bisect.bisect_left(st.bases, a); del st.bases[i]
        st.frames.pop()
        unwind(eng, st)
    return run

def c_landingpad(eng, f, ins):
    cleanup, clauses = ins.extra
    ins.extra = (cleanup, [(k, getter(eng, v)) for (k, v) in clauses])
    def run(eng, st, fr, work): raise Unsupported("landingpad executed directly")
    return run

def c_extractvalue(eng, f, ins):
    a = getter(eng, ins.args[0]); idx = ins.extra; dst = ins.dst
    def run(eng, st, fr, work):
        v = a(fr)
        for i in idx: v = v[i]
        fr.regs[dst] = v
    return run

def c_insertvalue(eng, f, ins):
    a = getter(eng, ins.args[0]); b = getter(eng, ins.args[1]); idx = ins.extra; dst = ins.dst
    nel = len(ins.ty.els) if isinstance(ins.ty, StructT) else ins.ty.n
    def run(eng, st, fr, work):
        v = a(fr)
        v = list(v) if type(v) is list else [0] * nel
        assert len(idx) == 1
        v[idx[0]] = b(fr); fr.regs[dst] = v
    return run

def c_atomicrmw(eng, f, ins):
    a = getter(eng, ins.args[0]); v = getter(eng, ins.args[1]); bop = ins.extra; dst = ins.dst; n = sizeof(ins.ty); mask = (1 << (8 * n)) - 1
    def run(eng, st, fr, work):
        p = a(fr); old = st.load(p, n); x = v(fr)
        if type(old) is not int or type(x) is not int: raise Unsupported("symbolic atomicrmw")
        new = {'add': old + x, 'sub': old - x, 'xchg': x, 'and': old & x, 'or': old | x}[bop] & mask
        st.store(p, n, new); fr.regs[dst] = old
    return run

def c_fneg(eng, f, ins):
    a = getter(eng, ins.args[0]); dst = ins.dst; bits = ins.ty.bits; sign = 1 << (bits - 1)
    def run(eng, st, fr, work):
        x = a(fr)
        fr.regs[dst] = (x ^ sign) if type(x) is int else simp(tobv(x, bits) ^ z3.BitVecVal(sign, bits))
    return run

def c_fence(eng, f, ins):
    def run(eng, st, fr, work): pass
    return run

def c_freeze(eng, f, ins):
    a = getter(eng, ins.args[0]); dst = ins.dst
    def run(eng, st, fr, work): fr.regs[dst] = a(fr)
    return run

def c_call(eng, f, ins):
    callee = ins.args[0]; args = [getter(eng, a) for a in ins.args[1:]]; dst = ins.dst
    is_invoke = ins.op == 'invoke'
    static = callee.n if isinstance(callee, GlobalRef) else None
    if static is not None and static in eng.mod.aliases and isinstance(eng.mod.aliases[static], GlobalRef): static = eng.mod.aliases[static].n
    cg = None if static else getter(eng, callee)
    def run(eng, st, fr, work):
        fn = static
        if fn is None:
            fa = cg(fr)
            if type(fa) is not int: raise Unsupported("symbolic function pointer")
            fn = eng.faddr.get(fa)
            if fn is None: raise PathEnd('memerr', ('bad-call', 'call through invalid function pointer %#x' % fa, st.where()))
        av = [g(fr) for g in args]
        stub = eng.stubs.get(fn)
        if stub is None and fn.startswith('llvm.'):
            stub = eng.stubs.get(fn.split('.')[1] if not fn.startswith('llvm.experimental') else 'noop')
            if stub is None: stub = eng.stubs.get('.'.join(fn.split('.')[:3]))
        if stub is not None:
            r = stub(eng, st, fr, av, work, ins)
            if st.throwing:
                st.throwing = False
                unwind(eng, st); return
            if dst is not None: fr.regs[dst] = r
            if is_invoke: goto(fr, ins.extra[1][0])
            return
        fdef = eng.mod.funcs.get(fn)
        if fdef is None or not fdef.defined:
            raise Unsupported("external function without stub: " + fn)
        push_call(eng, st, fn, av, ins)
    return run
c_invoke = c_call
