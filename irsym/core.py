# irsym core: memory model, path state, incremental solver context, engine/linker.
# See /verif/DESIGN.md section 2.  Values: python int (concrete bits) | z3 BitVec/Bool (symbolic).
import struct, bisect, math, sys, time
import z3
from .irparse import *

M64 = (1 << 64) - 1

class PathEnd(Exception):
    """ends the current path. kind in: return uncaught abort memerr ub budget resource infeasible unsupported"""
    def __init__(s, kind, info=None): s.kind = kind; s.info = info
class Unsupported(Exception):
    pass
class Inconclusive(Exception):
    pass

# ---------------------------------------------------------------------------- expression helpers
def is_c(v): return type(v) is int

def simp(e):
    e = z3.simplify(e)
    if z3.is_bv_value(e): return e.as_long()
    if z3.is_true(e): return 1
    if z3.is_false(e): return 0
    return e

def sx(v, bits):
    return v - (1 << bits) if v >> (bits - 1) else v

def bits_to_f(b, bits):
    if bits == 32: return struct.unpack('<f', struct.pack('<I', b))[0]
    return struct.unpack('<d', struct.pack('<Q', b))[0]
def f_to_bits(x, bits):
    if bits == 32:
        try: return struct.unpack('<I', struct.pack('<f', x))[0]
        except OverflowError: return 0x7f800000 if x > 0 else 0xff800000
    return struct.unpack('<Q', struct.pack('<d', x))[0]

def tobv(v, bits):
    if type(v) is int: return z3.BitVecVal(v, bits)
    if z3.is_bool(v): return z3.If(v, z3.BitVecVal(1, bits), z3.BitVecVal(0, bits))
    return v
def tobool(v):
    if type(v) is int: return z3.BoolVal(bool(v))
    if z3.is_bool(v): return v
    return v == 1
def fpsort(bits): return z3.Float32() if bits == 32 else z3.Float64()
def tofp(v, bits):
    return z3.fpBVToFP(tobv(v, bits), fpsort(bits))

_UNDEF_CACHE = {}
def has_undef(e):
    """True iff e mentions an 'undef!n' variable (a value read from never-written memory)."""
    if type(e) is int or e is None: return False
    if type(e) is list: return any(has_undef(x) for x in e)
    if type(e) is tuple: return has_undef(e[0])
    todo = [e]; seen = set(); visited = []
    found = False
    while todo:
        x = todo.pop(); i = x.get_id()
        if i in seen: continue
        seen.add(i)
        c = _UNDEF_CACHE.get(i)
        if c is not None:
            if c[1]: found = True; break
            continue
        visited.append(x)
        if z3.is_const(x) and x.decl().kind() == z3.Z3_OP_UNINTERPRETED:
            if x.decl().name().startswith('undef!'): found = True; break
        else:
            todo.extend(x.children())
    if found:
        _UNDEF_CACHE[e.get_id()] = (e, True)
    else:
        for x in visited: _UNDEF_CACHE[x.get_id()] = (x, False)
    return found

def sym_vars(e, acc=None):
    """names of the uninterpreted constants occurring in e"""
    if acc is None: acc = set()
    if type(e) is int or e is None: return acc
    if type(e) is list:
        for x in e: sym_vars(x, acc)
        return acc
    if type(e) is tuple: return sym_vars(e[0], acc)
    todo = [e]; seen = set()
    while todo:
        x = todo.pop(); i = x.get_id()
        if i in seen: continue
        seen.add(i)
        if z3.is_const(x) and x.decl().kind() == z3.Z3_OP_UNINTERPRETED: acc.add(x.decl().name())
        else: todo.extend(x.children())
    return acc

# ---------------------------------------------------------------------------- memory
class MemObj:
    __slots__ = ('base', 'size', 'data', 'kind', 'alive', 'ro', 'name', 'shared', 'prog', 'site')
    def __init__(s, base, size, kind, name=None, ro=False):
        s.base = base; s.size = size; s.data = [None] * size; s.kind = kind; s.alive = True; s.ro = ro
        s.name = name; s.shared = False; s.prog = 0; s.site = None
    def clone(s):
        o = MemObj.__new__(MemObj)
        o.base = s.base; o.size = s.size; o.data = list(s.data) if s.data is not None else None
        o.kind = s.kind; o.alive = s.alive; o.ro = s.ro; o.name = s.name; o.shared = False; o.prog = s.prog; o.site = s.site
        return o
    def desc(s):
        return '%s%s[%d]' % (s.kind, (':' + s.name) if s.name else '', s.size) + ((' allocated in ' + s.site) if s.site else '')

class Frame:
    __slots__ = ('fn', 'regs', 'block', 'prev', 'ip', 'allocas', 'callins', 'va')
    def __init__(s, fn):
        s.fn = fn; s.regs = {}; s.block = None; s.prev = None; s.ip = 0; s.allocas = []; s.callins = None; s.va = None
    def clone(s):
        o = Frame(s.fn); o.regs = dict(s.regs); o.block = s.block; o.prev = s.prev; o.ip = s.ip; o.allocas = list(s.allocas); o.callins = s.callins; o.va = s.va
        return o

STACK_LO = 0x7000000000
HEAP_LO = 0x10000000

class State:
    def __init__(s, eng):
        s.eng = eng
        s.mem = {}            # base -> MemObj
        s.bases = []          # sorted bases
        s.frames = []
        s.pc = []             # path condition (z3 bools)
        s.model = None        # a model of pc (counterexample cache), or None
        s.heap_next = HEAP_LO
        s.stack_next = STACK_LO
        s.exc = None          # in-flight exception (obj, tinfo)
        s.caught = []         # stack of caught exceptions
        s.obs = []            # observations (label, value)
        s.events = []         # diagnostics: tuples (kind, ...)
        s.files = {}          # name -> list of cells
        s.handles = {}        # h -> [name, pos, mode, nwritten]
        s.next_h = 3
        s.nsteps = 0
        s.syms = {}           # symbol base name -> count
        s.symlist = []        # (name, bits) in creation order
        s.symset = set()
        s.choices = []        # (name, value) of __vp_choice
        s.reached = []        # markers
        s.throwing = False
        s.prog = 0            # current 'program' id (C18)
        s.fault = None        # fault model: dict(open=Bool, off=BitVec32, close=Bool) or None
        s.faulted = False     # a fault happened on this path
        s.live_heap = 0
        s.input_tainted_alloc = False   # C16: concrete allocation sizes on this path derive from file input
        s.unwritable = ()     # file names that cannot be opened for writing (concrete fault)
        s.forced_choices = None
        s.cfg = {}
        s.deadline = 1e18
    def clone(s):
        o = State(s.eng)
        o.mem = dict(s.mem)
        for m in o.mem.values(): m.shared = True
        o.bases = list(s.bases)
        o.frames = [f.clone() for f in s.frames]
        o.pc = list(s.pc); o.model = s.model; o.heap_next = s.heap_next; o.stack_next = s.stack_next
        o.exc = s.exc; o.caught = list(s.caught); o.obs = list(s.obs); o.events = list(s.events)
        o.files = {k: list(v) for k, v in s.files.items()}
        o.handles = {k: list(v) for k, v in s.handles.items()}
        o.next_h = s.next_h; o.nsteps = s.nsteps; o.syms = dict(s.syms); o.symlist = list(s.symlist); o.symset = set(s.symset)
        o.choices = list(s.choices); o.reached = list(s.reached); o.prog = s.prog
        o.fault = s.fault; o.faulted = s.faulted; o.live_heap = s.live_heap
        o.input_tainted_alloc = s.input_tainted_alloc; o.unwritable = s.unwritable; o.forced_choices = s.forced_choices; o.deadline = s.deadline; o.cfg = s.cfg
        return o
    # ---- memory
    def where(s):
        for fr in reversed(s.frames):
            n = fr.fn.name
            if not n.startswith('_ZNS') and not n.startswith('_ZSt') and not n.startswith('_ZN9__gnu_cxx'): return n
        return s.frames[-1].fn.name if s.frames else '?'
    def alloc(s, size, kind, name=None, ro=False):
        if kind == 'stack':
            base = s.stack_next; s.stack_next += (size + 15) // 16 * 16 + 64
        else:
            base = s.heap_next; s.heap_next += (size + 15) // 16 * 16 + 4096
        o = MemObj(base, size, kind, name, ro)
        o.prog = s.prog
        s.mem[base] = o
        bisect.insort(s.bases, base)
        return base
    def find(s, addr, n, write=False):
        i = bisect.bisect_right(s.bases, addr) - 1
        if i < 0:
            raise PathEnd('memerr', ('null-deref' if addr < 4096 else 'wild-pointer', '%s of %d bytes at %#x' % ('write' if write else 'read', n, addr), s.where()))
        o = s.mem[s.bases[i]]
        off = addr - o.base
        if off + n > o.size:
            if addr >= STACK_LO and off >= o.size + 64:
                raise PathEnd('memerr', ('use-after-return', '%s of %d bytes of a dead stack slot' % ('write' if write else 'read', n), s.where()))
            raise PathEnd('memerr', ('out-of-bounds', '%s of %d bytes at offset %d of %s' % ('write' if write else 'read', n, off, o.desc()), s.where()))
        if not o.alive:
            raise PathEnd('memerr', ('use-after-free', '%s of %s' % ('write' if write else 'read', o.desc()), s.where()))
        if s.prog and o.prog and o.prog != s.prog and not o.ro:
            s.events.append(('cross-program-access', 'write' if write else 'read', o.desc(), s.where()))
        if write:
            if o.ro: raise PathEnd('memerr', ('write-to-constant', o.desc(), s.where()))
            if o.kind == 'global':
                s.events.append(('global-store', o.name, s.where()))
            if o.shared:
                o = o.clone(); s.mem[o.base] = o
        elif o.kind == 'global' and not o.ro and s.prog:
            s.events.append(('mutable-global-load', o.name, s.where()))
        return o, off
    def free(s, addr, how):
        if addr == 0: return
        o = s.mem.get(addr)
        if o is None:
            raise PathEnd('memerr', ('invalid-free', 'free of %#x which is not the start of an allocation' % addr, s.where()))
        if not o.alive:
            raise PathEnd('memerr', ('double-free', o.desc(), s.where()))
        if o.kind in ('global', 'stack'):
            raise PathEnd('memerr', ('invalid-free', 'free of ' + o.desc(), s.where()))
        if o.kind != how:
            s.events.append(('mismatched-deallocation', '%s memory released with %s' % (o.kind, {'new': 'delete', 'new[]': 'delete[]', 'malloc': 'free', 'exc': '__cxa_free_exception'}.get(how, how)), s.where()))
        if s.prog and o.prog and o.prog != s.prog:
            s.events.append(('cross-program-access', 'free', o.desc(), s.where()))
        if o.shared:
            o = o.clone(); s.mem[o.base] = o
        o.alive = False; o.data = None
        s.live_heap -= o.size
    def load(s, addr, n):
        o, off = s.find(addr, n)
        d = o.data
        if n == 1:
            c = d[off]
            if type(c) is int: return c
        else:
            cells = d[off:off + n]
            ok = True
            for c in cells:
                if type(c) is not int: ok = False; break
            if ok: return int.from_bytes(bytes(cells), 'little')
        return s.load_sym(o, off, n)
    def load_sym(s, o, off, n):
        cells = o.data[off:off + n]
        c0 = cells[0]
        if type(c0) is tuple and c0[1] == 0 and c0[0].size() == 8 * n:
            e = c0[0]; good = True
            for k in range(1, n):
                c = cells[k]
                if type(c) is not tuple or c[0] is not e or c[1] != k: good = False; break
            if good: return e
        parts = []
        for k, c in enumerate(cells):
            if c is None:
                s.eng.undef_ctr += 1
                u = z3.BitVec('undef!%d' % s.eng.undef_ctr, 8)
                s.eng.undef_origin[u.decl().name()] = (o.desc(), off + k, s.where())
                if o.shared:
                    o = o.clone(); s.mem[o.base] = o
                o.data[off + k] = (u, 0)
                parts.append(u)
            elif type(c) is int: parts.append(z3.BitVecVal(c, 8))
            else:
                e, j = c
                parts.append(e if e.size() == 8 else z3.Extract(8 * j + 7, 8 * j, e))
        if n == 1: return parts[0]
        return simp(z3.Concat(*reversed(parts)))
    def store(s, addr, n, v):
        o, off = s.find(addr, n, True)
        if type(v) is not int:
            if z3.is_bool(v): v = z3.If(v, z3.BitVecVal(1, 8 * n), z3.BitVecVal(0, 8 * n))
            elif z3.is_bv_value(v): v = v.as_long()
        if type(v) is int:
            o.data[off:off + n] = (v & ((1 << (8 * n)) - 1)).to_bytes(n, 'little')
        else:
            k = v.decl().kind()
            if n > 1 and k in (z3.Z3_OP_CONCAT, z3.Z3_OP_ZERO_EXT, z3.Z3_OP_SIGN_EXT, z3.Z3_OP_BAND, z3.Z3_OP_BOR, z3.Z3_OP_BSHL, z3.Z3_OP_BLSHR):
                # normalise byte-wise so concrete bytes stay concrete and bytes keep their own provenance
                for j in range(n):
                    b = simp(z3.Extract(8 * j + 7, 8 * j, v))
                    o.data[off + j] = b if type(b) is int else (b, 0)
            else:
                for j in range(n): o.data[off + j] = (v, j)
    def copy(s, dst, src, n):
        if n == 0: return
        so, soff = s.find(src, n)
        cells = so.data[soff:soff + n]
        do, doff = s.find(dst, n, True)
        do.data[doff:doff + n] = cells
    def cells(s, addr, n):
        if n == 0: return []
        o, off = s.find(addr, n)
        return o.data[off:off + n]
    def cstr(s, addr, maxn=4096):
        out = bytearray()
        while len(out) < maxn:
            c = s.load(addr + len(out), 1)
            if type(c) is not int: raise Unsupported("symbolic cstr")
            if c == 0: break
            out.append(c)
        return bytes(out)
    def event(s, *e):
        s.events.append(e)

def cell_value(c):
    """byte cell -> int | z3 8-bit expr | None"""
    if c is None or type(c) is int: return c
    e, j = c
    return e if e.size() == 8 else simp(z3.Extract(8 * j + 7, 8 * j, e))

# ---------------------------------------------------------------------------- solver context
class SolverCtx:
    """one incremental z3 solver whose assertion stack mirrors the path condition of the state being run."""
    def __init__(s, timeout_ms=10000):
        s.sol = z3.Solver(); s.sol.set('timeout', timeout_ms)
        s.stack = []
        s.time = 0.0; s.queries = 0; s.cache_hits = 0; s.fallbacks = 0; s.fallback_ms = 120000
    def sync(s, pc):
        st = s.stack; n = 0; L = min(len(pc), len(st))
        while n < L and st[n] == pc[n].get_id(): n += 1
        while len(st) > n:
            s.sol.pop(); st.pop()
        for c in pc[n:]:
            s.sol.push(); s.sol.add(c); st.append(c.get_id())
    def check(s, pc, extra=None):
        """returns a model if pc (+extra) is satisfiable, None if unsat; raises Inconclusive on unknown"""
        t = time.time()
        s.sync(pc)
        if extra is not None:
            s.sol.push(); s.sol.add(extra)
        r = s.sol.check()
        m = s.sol.model() if r == z3.sat else None
        if extra is not None: s.sol.pop()
        s.time += time.time() - t; s.queries += 1
        if r == z3.unknown:
            # the incremental solver core is weaker than z3's one-shot strategy: retry non-incrementally
            t = time.time()
            s2 = z3.Solver(); s2.set('timeout', s.fallback_ms)
            for c in pc: s2.add(c)
            if extra is not None: s2.add(extra)
            r = s2.check(); s.fallbacks += 1
            m = s2.model() if r == z3.sat else None
            s.time += time.time() - t
            if r == z3.unknown: raise Inconclusive('solver returned unknown: ' + s2.reason_unknown())
        return m

# ---------------------------------------------------------------------------- engine
class Engine:
    def __init__(s, mod):
        s.mod = mod
        s.gaddr = {}      # global/function name -> address
        s.faddr = {}      # address -> function name
        s.stubs = {}
        s.init_state = State(s)
        s.sc = SolverCtx()
        s.typeids = {}
        s.undef_ctr = 0
        s.undef_origin = {}
        s.max_alloc = 1 << 20        # input-controlled allocation bound (C16 resource rule), overridable
        s.track_undef_branches = False
        s.link()
    # ---------------------------------------------------------------- linking
    def link(s):
        st = s.init_state; mod = s.mod
        fa = 0x1000
        for n in mod.funcs:
            s.gaddr[n] = fa; s.faddr[fa] = n; fa += 16
        for n, g in mod.globals.items():
            try: size = sizeof(g.ty)
            except TypeError: size = 64
            if g.external: size = max(size, 64)
            s.gaddr[n] = st.alloc(size, 'global', n, ro=False)
        for n, v in mod.aliases.items():
            tgt = v
            while isinstance(tgt, CExpr): tgt = tgt.args[0][1]
            s.gaddr[n] = s.gaddr[tgt.n]
            if tgt.n in mod.funcs: s.faddr[s.gaddr[n]] = tgt.n
        for n, g in mod.globals.items():
            o = st.mem[s.gaddr[n]]
            if g.init is not None:
                s.write_const(st, o.base, g.ty, g.init)
            elif g.external:
                if n == '_ZNSt8ios_base3begE': st.store(o.base, 4, 0)
                elif n == '_ZNSt8ios_base3curE': st.store(o.base, 4, 1)
                elif n == '_ZNSt8ios_base3endE': st.store(o.base, 4, 2)
                elif n == '__libc_single_threaded': st.store(o.base, 1, 0)
                else: o.data = [0] * o.size
            o.ro = g.const or (g.external and n != '__libc_single_threaded')
        st.events = []
    def write_const(s, st, addr, ty, v):
        if isinstance(v, ZeroInit):
            if sizeof(ty): st.store(addr, sizeof(ty), 0)
            return
        if isinstance(v, Undef):
            if sizeof(ty): st.store(addr, sizeof(ty), 0)
            return
        if isinstance(v, Agg):
            if isinstance(ty, StructT):
                offs = layout(ty)[2]
                for (et, ev), off in zip(v.els, offs): s.write_const(st, addr + off, et, ev)
            else:
                es = sizeof(ty.el)
                for k, (et, ev) in enumerate(v.els): s.write_const(st, addr + k * es, et, ev)
            return
        if isinstance(v, Const) and type(v.v) is list:
            o, off = st.find(addr, len(v.v), True)
            o.data[off:off + len(v.v)] = v.v; return
        st.store(addr, sizeof(ty), s.cval(v))
    def cval(s, v):
        if isinstance(v, Const): return v.v
        if isinstance(v, GlobalRef):
            a = s.gaddr.get(v.n)
            if a is None:
                raise Unsupported("unknown global " + v.n)
            return a
        if isinstance(v, Undef): return 0
        if isinstance(v, ZeroInit): return 0
        if isinstance(v, CExpr):
            if v.op in ('bitcast', 'ptrtoint', 'inttoptr', 'addrspacecast'): return s.cval(v.args[0][1])
            if v.op == 'gep':
                base = s.cval(v.args[0][1]); ty = v.srcty
                idx = [s.cval(a) for (_, a) in v.args[1:]]
                off = sx(idx[0], 64) * sizeof(ty)
                for i in idx[1:]:
                    if isinstance(ty, StructT): off += layout(ty)[2][i]; ty = ty.els[i]
                    else: ty = ty.el; off += sx(i, 64) * sizeof(ty)
                return (base + off) & M64
            if v.op == 'sub': return (s.cval(v.args[0][1]) - s.cval(v.args[1][1])) & M64
            if v.op == 'add': return (s.cval(v.args[0][1]) + s.cval(v.args[1][1])) & M64
            raise Unsupported("cexpr " + v.op)
        if isinstance(v, Agg):
            return [s.cval(ev) for (_, ev) in v.els]
        raise Unsupported("cval %r" % (v,))

    # ---------------------------------------------------------------- solver helpers
    def feasible(s, st, cond):
        """is pc ∧ cond satisfiable?  uses the state's cached model first."""
        if st.model is not None:
            try:
                if z3.is_true(st.model.eval(cond, model_completion=True)):
                    s.sc.cache_hits += 1; return True
            except z3.Z3Exception:
                pass
        m = s.sc.check(st.pc, cond)
        return m is not None
    def model_of(s, st, cond=None):
        return s.sc.check(st.pc, cond)
    def branch(s, st, cond):
        """cond: z3 Bool.  Returns [(state, bool)] for the feasible outcomes; forks when both are."""
        mt = mf = None; t = f = None
        if st.model is not None:
            try:
                v = st.model.eval(cond, model_completion=True)
                if z3.is_true(v): t = True; mt = st.model; s.sc.cache_hits += 1
                elif z3.is_false(v): f = True; mf = st.model; s.sc.cache_hits += 1
            except z3.Z3Exception:
                pass
        if s.track_undef_branches and has_undef(cond):
            st.events.append(('branch-on-undefined', st.where(), str(sorted(v for v in sym_vars(cond) if v.startswith('undef!'))[:2])))
        ncond = z3.Not(cond)
        if t is None:
            mt = s.sc.check(st.pc, cond); t = mt is not None
        if f is None:
            mf = s.sc.check(st.pc, ncond); f = mf is not None
        if t and f:
            st2 = st.clone()
            st.pc.append(cond); st.model = mt
            st2.pc.append(ncond); st2.model = mf
            return [(st, True), (st2, False)]
        if t:
            return [(st, True)]      # cond is implied by pc: no need to record it
        if f:
            return [(st, False)]
        raise PathEnd('infeasible')
    def concretize(s, st, e, limit=64):
        """all feasible concrete values of bit-vector e under st.pc (at most limit, else Unsupported)."""
        vals = []
        extra = []
        while len(vals) <= limit:
            if time.time() > st.deadline: raise Inconclusive('wall budget exhausted while enumerating the values of a symbolic size/address')
            m = s.sc.check(st.pc, z3.And(*extra) if extra else None)
            if m is None: break
            v = m.eval(e, model_completion=True).as_long()
            vals.append(v); extra.append(e != v)
        if len(vals) > limit: raise Unsupported("more than %d feasible values for a symbolic address/size" % limit)
        return vals
    def fname(s, a):
        o = s.init_state.mem.get(a)
        return o.name if o else s.faddr.get(a, hex(a))
