# Obligation checking: element-wise comparison of observation sections, decided by the solver under the
# path condition; counterexample extraction.
import z3
from .core import *

class Obl:
    """one proof obligation: under path condition, `bad` (a z3 Bool or python bool) must be unsatisfiable"""
    __slots__ = ('locus', 'bad', 'detail', 'cls')
    def __init__(s, locus, bad, detail='', cls='value'): s.locus = locus; s.bad = bad; s.detail = detail; s.cls = cls

def _w(v):
    return v.size() if not is_c(v) and not z3.is_bool(v) else None

def neq(a, b):
    """python bool or z3 Bool: a differs from b (ints / bit-vectors of any widths, compared zero-extended)"""
    if is_c(a) and is_c(b): return a != b
    if a is b: return False
    if not is_c(a) and not is_c(b):
        try:
            if a.eq(b): return False          # the same term (z3 terms are hash-consed): no simplifier call, no obligation to decide
        except Exception: pass
    wa = _w(a); wb = _w(b)
    w = max(x for x in (wa, wb, 1) if x is not None)
    if is_c(a): w = max(w, a.bit_length())
    if is_c(b): w = max(w, b.bit_length())
    A = tobv(a, w) if is_c(a) or z3.is_bool(a) else (z3.ZeroExt(w - wa, a) if wa < w else a)
    B = tobv(b, w) if is_c(b) or z3.is_bool(b) else (z3.ZeroExt(w - wb, b) if wb < w else b)
    r = simp(A != B)
    if is_c(r): return bool(r)
    return r

def upper(c):
    if is_c(c): return c - 32 if 97 <= c <= 122 else c
    return z3.If(z3.And(z3.UGE(c, 97), z3.ULE(c, 122)), c - 32, c)

def compare(exp, act, prefix, upper_labels=(), skip_labels=(), mapper=None):
    """element-wise obligations that section `act` equals section `exp`.
    Structural mismatches (different label sequence / list length) are obligations with bad=True."""
    obls = []
    E = [(l, v) for (l, v) in exp if l not in skip_labels or True]
    A = list(act)
    n = min(len(E), len(A))
    cnt = {}
    for i in range(n):
        le, ve = E[i]; la, va = A[i]
        k = cnt.get(le, 0); cnt[le] = k + 1
        locus = '%s/%s' % (prefix, le)
        if le != la:
            obls.append(Obl('%s/structure' % prefix, True, 'element %d: expected label %s, got %s' % (i, le, la))); return obls
        if le in skip_labels: continue
        if type(ve) is list or type(va) is list:
            if type(ve) is not list or type(va) is not list or len(ve) != len(va):
                obls.append(Obl(locus + '.length', True, '%s[%d]: length %s vs %s' % (le, k, len(ve) if type(ve) is list else '?', len(va) if type(va) is list else '?'))); continue
            for j, (ce, ca) in enumerate(zip(ve, va)):
                if le in upper_labels: ce = upper(ce)
                b = neq(ce, ca)
                if b is not False: obls.append(Obl(locus, b, '%s[%d] byte %d' % (le, k, j)))
                else: obls.append(Obl(locus, False))
        else:
            b = neq(ve, va)
            obls.append(Obl(locus, b, '%s[%d]' % (le, k)))
    if len(E) != len(A):
        obls.append(Obl('%s/structure' % prefix, True, 'section lengths differ: %d expected, %d actual (next: %s)' % (len(E), len(A), (E[n][0] if len(E) > n else A[n][0]))))
    return obls

def model_values(eng, st, m):
    """concrete values of all symbols created on this path under model m"""
    out = {}
    for name, bits in st.symlist:
        out[name] = m.eval(z3.BitVec(name, bits), model_completion=True).as_long()
    for vn in ('F_off',):
        pass
    return out

def decide(eng, st, obls, stats, maxcex=8):
    """discharge obligations under st.pc.  Returns list of (Obl, model) for the violated ones.
    stats: dict with counters 'obligations', 'discharged', 'trivial', 'solver_queries'"""
    viol = []
    pend = []
    for o in obls:
        stats['obligations'] += 1
        if o.bad is False:
            stats['discharged'] += 1; stats['trivial'] += 1
        elif o.bad is True:
            m = eng.sc.check(st.pc)
            viol.append((o, m))
        else:
            pend.append(o)
    if not pend: return viol
    # one query for the disjunction first; only when it is sat look at the members
    stats['solver_queries'] += 1
    m = eng.sc.check(st.pc, z3.Or(*[o.bad for o in pend]) if len(pend) > 1 else pend[0].bad)
    if m is None:
        stats['discharged'] += len(pend); return viol
    seen = set()
    for o in pend:
        if len(viol) >= maxcex and o.locus in seen:
            continue
        stats['solver_queries'] += 1
        mo = eng.sc.check(st.pc, o.bad)
        if mo is None: stats['discharged'] += 1
        else:
            viol.append((o, mo)); seen.add(o.locus)
    return viol
