# Obligation checking: element-wise comparison of observation sections, decided by the solver under the
# path condition; counterexample extraction.
import z3
from .core import *

class Obl:
    """one proof obligation: under path condition, `bad` (a z3 Bool or python bool) must be unsatisfiable"""
    __slots__ = ('locus', 'bad', 'detail', 'cls')
    def __init__(s, locus, bad, detail='', cls='value'): s.locus = locus; s.bad = bad; s.detail = detail; s.cls = cls

def _w(v):
    return v.size() if not is_c(v) and not z3.is_bool(v) else None

def neq(a, b):
    """python bool or z3 Bool: a differs from b (ints / bit-vectors of any widths, compared zero-extended)"""
    if is_c(a) and is_c(b): return a != b
    if a is b: return False
    if not is_c(a) and not is_c(b):
        try:
            if a.eq(b): return False          # the same term (z3 terms are hash-consed): no simplifier call, no obligation to decide
        except Exception: pass
    wa = _w(a); wb = _w(b)
    w = max(x for x in (wa, wb, 1) if x is not None)
    if is_c(a): w = max(w, a.bit_length())
    if is_c(b): w = max(w, b.bit_length())
    A = tobv(a, w) if is_c(a) or z3.is_bool(a) else (z3.ZeroExt(w - wa, a) if wa < w else a)
    B = tobv(b, w) if is_c(b) or z3.is_bool(b) else (z3.ZeroExt(w - wb, b) if wb < w else b)
    r = simp(A != B)
    if is_c(r): return bool(r)
    return r

def upper(c):
    if is_c(c): return c - 32 if 97 <= c <= 122 else c
    return z3.If(z3.And(z3.UGE(c, 97), z3.ULE(c, 122)), c - 32, c)

def compare(exp, act, prefix, upper_labels=(), skip_labels=(), mapper=None):
    """element-wise obligations that section `act` equals section `exp`.
    Structural mismatches (different label sequence / list length) are obligations with bad=True."""
    obls = []
    E = [(l, v) for (l, v) in exp if l not in skip_labels or True]
    A = list(act)
    n = min(len(E), len(A))
    cnt = {}
    for i in range(n):
        le, ve = E[i]; la, va = A[i]
        k = cnt.get(le, 0); cnt[le] = k + 1
        locus = '%s/%s' % (prefix, le)
        if le != la:
            obls.append(Obl('%s/structure' % prefix, True, 'element %d: expected label %s, got %s' % (i, le, la))); return obls
        if le in skip_labels: continue
        if type(ve) is list or type(va) is list:
            if type(ve) is not list or type(va) is not list or len(ve) != len(va):
                obls.append(Obl(locus + '.length', True, '%s[%d]: length %s vs %s' % (le, k, len(ve) if type(ve) is list else '?', len(va) if type(va) is list else '?'))); continue
            for j, (ce, ca) in enumerate(zip(ve, va)):
                if le in upper_labels: ce = upper(ce)
                b = neq(ce, ca)
                if b is not False: obls.append(Obl(locus, b, '%s[%d] byte %d' % (le, k, j)))
                else: obls.append(Obl(locus, False))
        else:
            b = neq(ve, va)
            obls.append(Obl(locus, b, '%s[%d]' % (le, k)))
    if len(E) != len(A):
        obls.append(Obl('%s/structure' % prefix, True, 'section lengths differ: %d expected, %d actual (next: %s)' % (len(E), len(A), (E[n][0] if len(E) > n else A[n][0]))))
    return obls

def model_values(eng, st, m):
    """concrete values of all symbols created on this path under model m"""
    out = {}
    for name, bits in st.symlist:
        out[name] = m.eval(z3.BitVec(name, bits), model_completion=True).as_long()
    for vn in ('F_off',):
        pass
    return out

# ---------------------------------------------------------------------------- second solver
# A sample of the final obligation queries is exported as SMT-LIB2 text and decided again by the cvc5 binary (a code base
# that shares nothing with z3).  agree -> counted; cvc5 'unknown'/timeout/(error -> counted as undecided by the second solver
# (not a verdict either way); a DIFFERENT verdict is a machinery error (the run exits 2), never a pass and never a finding.
import os, subprocess
XC_RATE = {'quick': (1, 8), 'thorough': (1, 2, 4, 8, 16, 32, 64, 128, 256, 512, 1024)}
XC_MAXBYTES = 1500000
def _xc_on(): return os.environ.get('VERIF_XCHECK', '1') != '0'
_IEEE = {}
def _ieee_fn(bits):
    if bits not in _IEEE:
        fs = z3.Float32() if bits == 32 else z3.Float64()
        f = z3.Function('ieee%d' % bits, fs, z3.BitVecSort(bits)); x = z3.Const('x!ieee%d' % bits, fs)
        _IEEE[bits] = (f, z3.ForAll([x], z3.fpBVToFP(f(x), fs) == x))
    return _IEEE[bits]
def _std_terms(asserts):
    """z3's fp.to_ieee_bv is not SMT-LIB: replace it by an uninterpreted function with the axiom to_fp(ieee(x)) = x
    (for a NaN both solvers are then free to pick any NaN pattern, which is z3's own 'unspecified' reading)."""
    found = {}; seen = set(); stack = list(asserts)
    while stack:
        e = stack.pop()
        i = e.get_id()
        if i in seen: continue
        seen.add(i)
        if z3.is_app(e):
            if e.decl().kind() == z3.Z3_OP_FPA_TO_IEEE_BV: found[i] = e
            stack.extend(e.children())
        elif z3.is_quantifier(e): stack.append(e.body())
    if not found: return asserts, []
    subs = []; ax = {}
    for e in found.values():
        f, a = _ieee_fn(e.size()); ax[e.size()] = a
        subs.append((e, f(e.arg(0))))
    # inner occurrences first would need a fixpoint; nested to_ieee_bv does not occur (a float is re-packed once), one pass is checked below
    out = [z3.substitute(c, *subs) for c in asserts]
    return out, list(ax.values())
def smt2_of(pc, extra):
    import re
    A = list(pc) + ([extra] if extra is not None else [])
    A, axioms = _std_terms(A)
    s = z3.Solver()
    for c in axioms + A: s.add(c)
    txt = '(set-logic ALL)\n' + s.to_smt2()
    return re.sub(r'\b(bv[us](?:div|rem|mod))_i\b', r'\1', txt)      # z3-internal names of the total division operators
def second_solver(pc, extra, expect_sat, stats, tlimit_ms=8000):
    """re-decide one query with cvc5; returns 'agree' | 'undecided' | 'disagree'"""
    import time as _t
    t = _t.time()
    try:
        txt = smt2_of(pc, extra)
        if len(txt) > XC_MAXBYTES:
            out = 'toolarge'
        else:
            r = subprocess.run(['cvc5', '--lang=smt2', '--tlimit=%d' % tlimit_ms], input=txt.encode(), capture_output=True, timeout=tlimit_ms / 1000 + 10)
            o = r.stdout.decode('latin1'); e = r.stderr.decode('latin1')
            first = o.strip().splitlines()[0].strip() if o.strip() else ''
            out = 'error' if ('(error' in o or '(error' in e) else first
            if out == 'error' and os.environ.get('VERIF_XC_DUMP'):
                open(os.environ['VERIF_XC_DUMP'], 'w').write(txt + '\n; ' + o + e)
    except Exception as ex:
        out = 'error:%s' % type(ex).__name__
    stats['xc_queries'] = stats.get('xc_queries', 0) + 1
    stats['xc_s'] = stats.get('xc_s', 0.0) + (_t.time() - t)
    if out in ('sat', 'unsat'):
        if (out == 'sat') == bool(expect_sat):
            stats['xc_agree'] = stats.get('xc_agree', 0) + 1; return 'agree'
        stats.setdefault('xc_disagree', []).append('z3 says %s, cvc5 says %s' % ('sat' if expect_sat else 'unsat', out)); return 'disagree'
    stats['xc_undecided'] = stats.get('xc_undecided', 0) + 1
    k = out[:24]; d = stats.setdefault('xc_undecided_kinds', {}); d[k] = d.get(k, 0) + 1
    return 'undecided'

def decide(eng, st, obls, stats, maxcex=8):
    """discharge obligations under st.pc.  Returns list of (Obl, model) for the violated ones.
    stats: dict with counters 'obligations', 'discharged', 'trivial', 'solver_queries'"""
    viol = []
    pend = []
    for o in obls:
        stats['obligations'] += 1
        if o.bad is False:
            stats['discharged'] += 1; stats['trivial'] += 1
        elif o.bad is True:
            m = eng.sc.check(st.pc)
            viol.append((o, m))
        else:
            pend.append(o)
    if not pend: return viol
    # one query for the disjunction first; only when it is sat look at the members
    stats['solver_queries'] += 1
    disj = z3.Or(*[o.bad for o in pend]) if len(pend) > 1 else pend[0].bad
    m = eng.sc.check(st.pc, disj)
    n = stats['xc_n'] = stats.get('xc_n', 0) + 1
    if _xc_on() and (m is not None or n in XC_RATE.get(os.environ.get('VERIF_TIER', 'quick'), (1, 8))):
        second_solver(st.pc, disj, m is not None, stats)
    if m is None:
        stats['discharged'] += len(pend); return viol
    seen = set()
    for o in pend:
        if len(viol) >= maxcex and o.locus in seen:
            continue
        stats['solver_queries'] += 1
        mo = eng.sc.check(st.pc, o.bad)
        if mo is None: stats['discharged'] += 1
        else:
            viol.append((o, mo)); seen.add(o.locus)
    return viol
