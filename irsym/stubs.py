# Environment models: allocator, C++ EH runtime, libc bits, std exception classes, file model with
# fault injection, harness intrinsics.  Every stub is part of every claim (DESIGN.md 2.3).
import z3, math
from .core import *
from .interp import addr_of

STD_BASES = {   # typeinfo symbol -> base typeinfo symbol (libstdc++ hierarchy)
 '_ZTISt16invalid_argument': '_ZTISt11logic_error', '_ZTISt12out_of_range': '_ZTISt11logic_error',
 '_ZTISt12length_error': '_ZTISt11logic_error', '_ZTISt12domain_error': '_ZTISt11logic_error',
 '_ZTISt11logic_error': '_ZTISt9exception', '_ZTISt13runtime_error': '_ZTISt9exception',
 '_ZTISt11range_error': '_ZTISt13runtime_error', '_ZTISt14overflow_error': '_ZTISt13runtime_error',
 '_ZTISt15underflow_error': '_ZTISt13runtime_error',
 '_ZTINSt8ios_base7failureB5cxx11E': '_ZTISt12system_error', '_ZTISt12system_error': '_ZTISt13runtime_error',
 '_ZTISt9bad_alloc': '_ZTISt9exception', '_ZTISt20bad_array_new_length': '_ZTISt9bad_alloc', '_ZTISt8bad_cast': '_ZTISt9exception',
 '_ZTISt9exception': None,
}

def install(eng):
    S = eng.stubs
    eng.fn_executed = set()
    def ensure_global(n):
        if n not in eng.gaddr:
            eng.gaddr[n] = eng.init_state.alloc(64, 'global', n, ro=True)
            eng.init_state.mem[eng.gaddr[n]].data = [0] * 64
        return eng.gaddr[n]
    for n in list(STD_BASES): ensure_global(n)
    def type_matches(thrown, catch):
        t = eng.fname(thrown); c = eng.fname(catch)
        seen = 0
        while t is not None and seen < 20:
            if t == c: return True
            if t in STD_BASES: t = STD_BASES[t]
            else:
                # user-defined class: __si_class_type_info {vptr, name, base}
                g = eng.mod.globals.get(t)
                if g is None or g.init is None or not isinstance(g.init, Agg) or len(g.init.els) < 3: return False
                t = eng.fname(eng.cval(g.init.els[2][1]))
            seen += 1
        return False
    eng.type_matches = type_matches
    def typeid(a):
        if a not in eng.typeids: eng.typeids[a] = len(eng.typeids) + 2
        return eng.typeids[a]
    eng.typeid = typeid

    def throw(st, tinfo_name):
        obj = st.alloc(64, 'exc')
        st.exc = (obj, ensure_global(tinfo_name)); st.throwing = True
    eng.throw = throw
    # ---- allocator
    def op_new(kind):
        def f(eng, st, fr, a, work, ins):
            n = a[0]
            if type(n) is not int:
                n = simp(n)
            if type(n) is not int:
                lim = eng.max_alloc
                if eng.feasible(st, z3.UGT(n, lim)):
                    # the inputs that make the size exceed the bound end here as a resource event; the others go on (they used to
                    # share the verdict of the big ones, which hid whatever the code does with a small damaged count)
                    outs = eng.branch(st, z3.UGT(n, lim))
                    if len(outs) == 2:
                        s2 = outs[1][0]; s2.frames[-1].ip -= 1; work.append(s2)
                    if outs[0][1]:
                        m = eng.model_of(st)
                        st.model = m
                        raise PathEnd('resource', ('input-controlled-allocation', 'allocation size depends on input and can exceed %d bytes (e.g. %d)' % (lim, m.eval(n, model_completion=True).as_long()), st.where()))
                n = addr_of(eng, st, n, 0, work, 600)
            if n > (1 << 28):
                if st.input_tainted_alloc or n <= (1 << 40):
                    raise PathEnd('resource', ('huge-allocation', 'allocation of %d bytes' % n, st.where()))
                throw(st, '_ZTISt9bad_alloc'); return 0
            if n > eng.max_alloc and st.input_tainted_alloc:
                raise PathEnd('resource', ('input-controlled-allocation', 'allocation of %d bytes exceeds the bound %d' % (n, eng.max_alloc), st.where()))
            p = st.alloc(n, kind)
            st.mem[p].site = st.where()
            st.live_heap += n
            return p
        return f
    S['_Znwm'] = op_new('new'); S['_Znam'] = op_new('new[]'); S['malloc'] = op_new('malloc')
    def op_del(kind):
        def f(eng, st, fr, a, work, ins): st.free(a[0], kind)
        return f
    S['_ZdlPv'] = op_del('new'); S['_ZdaPv'] = op_del('new[]'); S['free'] = op_del('malloc')
    S['_ZdlPvm'] = op_del('new'); S['_ZdaPvm'] = op_del('new[]')
    # ---- EH runtime
    def cxa_alloc(eng, st, fr, a, work, ins): return st.alloc(a[0], 'exc')
    S['__cxa_allocate_exception'] = cxa_alloc
    S['__cxa_free_exception'] = lambda eng, st, fr, a, work, ins: st.free(a[0], 'exc')
    def cxa_throw(eng, st, fr, a, work, ins):
        st.exc = (a[0], a[1]); st.throwing = True
    S['__cxa_throw'] = cxa_throw
    def cxa_begin(eng, st, fr, a, work, ins):
        st.caught.append(st.exc); st.exc = None; return a[0]
    S['__cxa_begin_catch'] = cxa_begin
    def cxa_end(eng, st, fr, a, work, ins):
        st.caught.pop()
    S['__cxa_end_catch'] = cxa_end
    def cxa_rethrow(eng, st, fr, a, work, ins):
        st.exc = st.caught[-1]; st.throwing = True
    S['__cxa_rethrow'] = cxa_rethrow
    S['__cxa_get_exception_ptr'] = lambda eng, st, fr, a, work, ins: a[0]
    S['eh'] = lambda eng, st, fr, a, work, ins: eng.typeid(a[0])   # llvm.eh.typeid.for
    def abort(msg):
        def f(eng, st, fr, a, work, ins): raise PathEnd('abort', (msg, st.where()))
        return f
    S['_ZSt9terminatev'] = abort('std::terminate'); S['__cxa_pure_virtual'] = abort('pure-virtual-call'); S['trap'] = abort('llvm.trap'); S['abort'] = abort('abort')
    S['__clang_call_terminate'] = abort('std::terminate')
    def assert_fail(eng, st, fr, a, work, ins):
        raise PathEnd('abort', ('libstdc++-assertion', '%s' % (st.cstr(a[3]).decode()), st.where()))
    S['_ZSt21__glibcxx_assert_failPKciS0_S0_'] = assert_fail
    for n, t in [('_ZSt20__throw_length_errorPKc', '_ZTISt12length_error'), ('_ZSt19__throw_logic_errorPKc', '_ZTISt11logic_error'),
                 ('_ZSt17__throw_bad_allocv', '_ZTISt9bad_alloc'), ('_ZSt28__throw_bad_array_new_lengthv', '_ZTISt20bad_array_new_length'),
                 ('_ZSt24__throw_out_of_range_fmtPKcz', '_ZTISt12out_of_range'), ('_ZSt16__throw_bad_castv', '_ZTISt8bad_cast'),
                 ('_ZSt20__throw_out_of_rangePKc', '_ZTISt12out_of_range'), ('_ZSt24__throw_invalid_argumentPKc', '_ZTISt16invalid_argument')]:
        S[n] = (lambda t: lambda eng, st, fr, a, work, ins: throw(st, t))(t)
    noop = lambda eng, st, fr, a, work, ins: 0
    for n in eng.mod.funcs:
        f = eng.mod.funcs[n]
        if not f.defined and (n.startswith('_ZNSt') and ('C1E' in n or 'C2E' in n or 'D1Ev' in n or 'D2Ev' in n or 'D0Ev' in n)) and n not in S:
            S[n] = noop   # constructors/destructors of std exception classes: opaque (only the type is observable)
    S['_ZSt17iostream_categoryv'] = noop
    for n in eng.mod.funcs:
        if n.startswith('_ZNSaI') and not eng.mod.funcs[n].defined: S[n] = noop
    for n in ('lifetime', 'assume', 'noop', 'dbg', 'prefetch', 'invariant', 'experimental'): S[n] = noop
    S['_ZNKSt9exception4whatEv'] = noop
    # function-local statics: a guard acquire is a store to a global -> visible to C18 as such
    def guard_acquire(eng, st, fr, a, work, ins):
        v = st.load(a[0], 1)
        if v == 0:
            st.store(a[0], 1, 1); return 1
        return 0
    S['__cxa_guard_acquire'] = guard_acquire; S['__cxa_guard_release'] = noop; S['__cxa_guard_abort'] = noop
    S['__cxa_atexit'] = noop
    # ---- memory intrinsics / libc
    def memcpy(eng, st, fr, a, work, ins):
        n = a[2]
        if type(n) is not int: n = addr_of(eng, st, n, 0, work, 600)
        st.copy(a[0], a[1], n); return a[0]
    S['memcpy'] = S['memmove'] = memcpy
    def memset(eng, st, fr, a, work, ins):
        n = a[2]
        if type(n) is not int: n = addr_of(eng, st, n, 0, work, 600)
        if n:
            o, off = st.find(a[0], n, True)
            v = a[1]
            if type(v) is int: o.data[off:off + n] = [v & 255] * n
            else:
                b = simp(z3.Extract(7, 0, v)) if v.size() > 8 else v
                o.data[off:off + n] = [b if type(b) is int else (b, 0)] * n
        return a[0]
    S['memset'] = memset
    def strlen(eng, st, fr, a, work, ins):
        n = 0
        while True:
            c = st.load(a[0] + n, 1)
            if type(c) is not int:
                outs = eng.branch(st, c == 0)
                if len(outs) == 2:
                    s2 = outs[1][0]; s2.frames[-1].ip -= 1; work.append(s2)   # re-execute strlen in the fork
                if not outs[0][1]: n += 1; continue
                return n
            if c == 0: return n
            n += 1
    S['strlen'] = strlen
    def _zero_fill(st, addr, n):
        if n > 0:
            o, off = st.find(addr, n, True); o.data[off:off + n] = [0] * n
    def strnlen(eng, st, fr, a, work, ins):
        lim = a[1] if type(a[1]) is int else addr_of(eng, st, a[1], 0, work, 600)
        n = 0
        while n < lim:
            c = st.load(a[0] + n, 1)
            if type(c) is not int:
                outs = eng.branch(st, c == 0)
                if len(outs) == 2:
                    s2 = outs[1][0]; s2.frames[-1].ip -= 1; work.append(s2)
                if not outs[0][1]: n += 1; continue
                return n
            if c == 0: return n
            n += 1
        return n
    S['strnlen'] = strnlen
    def strcpy(eng, st, fr, a, work, ins):
        k = strlen(eng, st, fr, [a[1]], work, ins)
        st.copy(a[0], a[1], k + 1); return a[0]
    S['strcpy'] = strcpy
    def strncpy(eng, st, fr, a, work, ins):
        # ISO C: copies at most n characters of src, and pads dst with NULs up to n when src is shorter (no terminator when it is not)
        n = a[2] if type(a[2]) is int else addr_of(eng, st, a[2], 0, work, 600)
        k = strnlen(eng, st, fr, [a[1], n], work, ins)
        if k: st.copy(a[0], a[1], k)
        _zero_fill(st, a[0] + k, n - k)
        return a[0]
    S['strncpy'] = strncpy
    def strcat(eng, st, fr, a, work, ins):
        d = strlen(eng, st, fr, [a[0]], work, ins); k = strlen(eng, st, fr, [a[1]], work, ins)
        st.copy(a[0] + d, a[1], k + 1); return a[0]
    S['strcat'] = strcat
    def strncat(eng, st, fr, a, work, ins):
        n = a[2] if type(a[2]) is int else addr_of(eng, st, a[2], 0, work, 600)
        d = strlen(eng, st, fr, [a[0]], work, ins); k = strnlen(eng, st, fr, [a[1], n], work, ins)
        if k: st.copy(a[0] + d, a[1], k)
        _zero_fill(st, a[0] + d + k, 1); return a[0]
    S['strncat'] = strncat
    def memcmp(eng, st, fr, a, work, ins):
        n = a[2]
        if type(n) is not int: n = addr_of(eng, st, n, 0, work, 4096)
        res = 0
        for k in range(n - 1, -1, -1):
            x = st.load(a[0] + k, 1); y = st.load(a[1] + k, 1)
            if type(x) is int and type(y) is int:
                if x != y: res = (x - y) & 0xffffffff
            else:
                X = z3.ZeroExt(24, tobv(x, 8)); Y = z3.ZeroExt(24, tobv(y, 8))
                res = z3.If(X == Y, tobv(res, 32), X - Y)
        return res if type(res) is int else simp(res)
    S['memcmp'] = memcmp; S['bcmp'] = memcmp
    def memchr(eng, st, fr, a, work, ins):
        n = a[2]
        if type(n) is not int or type(a[1]) is not int: raise Unsupported('symbolic memchr')
        for k in range(n):
            c = st.load(a[0] + k, 1)
            if type(c) is not int: raise Unsupported('symbolic memchr')
            if c == (a[1] & 255): return a[0] + k
        return 0
    S['memchr'] = memchr
    def toupper(eng, st, fr, a, work, ins):
        c = a[0]
        if type(c) is int: return c - 32 if 97 <= c <= 122 else c
        return simp(z3.If(z3.And(c >= 97, c <= 122), c - 32, c))
    S['toupper'] = toupper
    def exp2(eng, st, fr, a, work, ins):
        if type(a[0]) is not int: raise Unsupported("symbolic exp2")
        x = bits_to_f(a[0], 64)
        try: r = 2.0 ** x
        except OverflowError: r = math.inf
        return f_to_bits(r, 64)
    S['exp2'] = exp2
    def ipow(eng, st, fr, a, work, ins):
        if type(a[0]) is not int or type(a[1]) is not int: raise Unsupported("symbolic pow")
        x = bits_to_f(a[0], 64); y = bits_to_f(a[1], 64)
        try: r = math.pow(x, y)
        except OverflowError: r = math.inf
        return f_to_bits(r, 64)
    S['pow'] = ipow
    def powi(eng, st, fr, a, work, ins):
        if type(a[0]) is not int or type(a[1]) is not int: raise Unsupported("symbolic powi")
        x = bits_to_f(a[0], 64); y = sx(a[1], 32)
        try: r = x ** y
        except OverflowError: r = math.inf
        return f_to_bits(r, 64)
    S['powi'] = powi
    def iabs(eng, st, fr, a, work, ins):
        v = a[0]; bits = ins.ty.bits
        if type(v) is int: return abs(sx(v, bits)) & ((1 << bits) - 1)
        return simp(z3.If(v < 0, -v, v))
    S['abs'] = iabs
    def mk_minmax(cmpc, cmps):
        def f(eng, st, fr, a, work, ins):
            bits = ins.ty.bits
            if type(a[0]) is int and type(a[1]) is int: return a[0] if cmpc(a[0], a[1], bits) else a[1]
            x = tobv(a[0], bits); y = tobv(a[1], bits)
            return simp(z3.If(cmps(x, y), x, y))
        return f
    S['umax'] = mk_minmax(lambda x, y, b: x > y, z3.UGT); S['umin'] = mk_minmax(lambda x, y, b: x < y, z3.ULT)
    S['smax'] = mk_minmax(lambda x, y, b: sx(x, b) > sx(y, b), lambda x, y: x > y); S['smin'] = mk_minmax(lambda x, y, b: sx(x, b) < sx(y, b), lambda x, y: x < y)
    def umul_ov(eng, st, fr, a, work, ins):
        bits = ins.ty.els[0].bits; mask = (1 << bits) - 1
        if type(a[0]) is int and type(a[1]) is int:
            r = a[0] * a[1]; return [r & mask, 1 if r > mask else 0]
        x = z3.ZeroExt(bits, tobv(a[0], bits)); y = z3.ZeroExt(bits, tobv(a[1], bits)); r = x * y
        return [simp(z3.Extract(bits - 1, 0, r)), simp(z3.Extract(2 * bits - 1, bits, r) != 0)]
    S['umul'] = umul_ov
    def bswap(eng, st, fr, a, work, ins):
        bits = ins.ty.bits; v = a[0]
        if type(v) is int: return int.from_bytes(v.to_bytes(bits // 8, 'little'), 'big')
        return simp(z3.Concat(*[z3.Extract(8 * k + 7, 8 * k, v) for k in range(bits // 8)]))
    S['bswap'] = bswap
    def fabs(eng, st, fr, a, work, ins):
        bits = ins.ty.bits; v = a[0]
        if type(v) is int: return v & ((1 << (bits - 1)) - 1)
        return simp(v & ((1 << (bits - 1)) - 1))
    S['fabs'] = fabs
    def ctz(eng, st, fr, a, work, ins):
        bits = ins.ty.bits; v = a[0]
        if type(v) is not int: raise Unsupported('symbolic cttz/ctlz')
        if v == 0: return bits
        return (v & -v).bit_length() - 1
    S['cttz'] = ctz
    def clz(eng, st, fr, a, work, ins):
        bits = ins.ty.bits; v = a[0]
        if type(v) is not int: raise Unsupported('symbolic cttz/ctlz')
        return bits - v.bit_length()
    S['ctlz'] = clz

    # ---- file model (DESIGN.md 2.4)
    def f_open(eng, st, fr, a, work, ins):
        name = bytes(st.load(a[0] + k, 1) for k in range(a[1])).decode('latin1')
        mode = a[2]
        if mode & 16:    # ios::out
            if st.fault is not None:
                outs = eng.branch(st, st.fault['open'])
                if len(outs) == 2:
                    s2 = outs[1][0]; s2.frames[-1].ip -= 1; work.append(s2)
                if outs[0][1]:
                    st.faulted = True; st.event('fault', 'open refused', name); return (-1) & 0xffffffff
            if name in st.unwritable: return (-1) & 0xffffffff
            # ISO table of open modes (app=1, in=8, out=16, trunc=32): out / out|trunc / in|out|trunc create or truncate;
            # in|out opens an EXISTING file without truncating it and fails otherwise; ...|app creates and keeps
            if mode & 1: st.files.setdefault(name, [])
            elif (mode & 8) and not (mode & 32):
                if name not in st.files: return (-1) & 0xffffffff
            else: st.files[name] = []
        elif name not in st.files:
            return (-1) & 0xffffffff
        h = st.next_h; st.next_h += 1
        st.handles[h] = [name, 0, mode, 0]; return h
    S['__vp_file_open'] = f_open
    def f_read(eng, st, fr, a, work, ins):
        n = a[2]
        if type(n) is not int: n = addr_of(eng, st, n, 0, work, 600)
        h = st.handles[a[0]]; data = st.files[h[0]]
        n = sx(n, 64)
        if n <= 0: return 0
        k = max(0, min(n, len(data) - h[1]))
        if k:
            o, off = st.find(a[1], k, True)
            o.data[off:off + k] = data[h[1]:h[1] + k]
        h[1] += k; return k
    S['__vp_file_read'] = f_read
    def f_write(eng, st, fr, a, work, ins):
        h = st.handles[a[0]]; n = a[2]
        if type(n) is not int: raise Unsupported('symbolic write length')
        n = sx(n, 64)
        if n <= 0: return 0
        o, off = st.find(a[1], n)
        cells = o.data[off:off + n]
        if st.fault is not None:
            ok = z3.ULE(z3.BitVecVal(h[3] + n, 32), st.fault['off'])
            outs = eng.branch(st, ok)
            if len(outs) == 2:
                s2 = outs[1][0]; s2.frames[-1].ip -= 1; work.append(s2)
            if not outs[0][1]:
                st.faulted = True; st.event('fault', 'write refused', h[0], h[3]); return 0
        data = st.files[h[0]]
        for k, c in enumerate(cells):
            if c is None or (type(c) is tuple and has_undef(c[0])):
                org = None
                if c is not None:
                    for vn in sym_vars(c[0]):
                        if vn.startswith('undef!'): org = eng.undef_origin.get(vn); break
                else:
                    org = (o.desc(), off + k, st.where())
                st.events.append(('undefined-byte-written', h[0], h[1] + k, fr_user(st), org))
        if h[1] > len(data): data.extend([0] * (h[1] - len(data)))
        data[h[1]:h[1] + n] = cells
        h[1] += n; h[3] += n; return n
    def fr_user(st):
        # innermost ezc3d:: function on the stack (the writer), for the locus
        for f in reversed(st.frames):
            if f.fn.name.startswith('_ZNK5ezc3d') or f.fn.name.startswith('_ZN5ezc3d'): return f.fn.name
        return st.where()
    S['__vp_file_write'] = f_write
    def f_write_some(eng, st, fr, a, work, ins):
        """write as many leading bytes as the device takes (operator<<(streambuf*) inserts one character at a time): three outcomes under
        the fault model - all n (returns n), none (0), or the first part (the first byte is stored and 1 is returned: how many were taken
        does not matter to any stream flag, only that it is neither 0 nor n)"""
        if st.fault is None: return f_write(eng, st, fr, a, work, ins)
        h = st.handles[a[0]]; n = a[2]
        if type(n) is not int: raise Unsupported('symbolic write length')
        n = sx(n, 64)
        if n <= 0: return 0
        allok = z3.ULE(z3.BitVecVal(h[3] + n, 32), st.fault['off'])
        outs = eng.branch(st, allok)
        if len(outs) == 2:
            s2 = outs[1][0]; s2.frames[-1].ip -= 1; work.append(s2)
        if outs[0][1]:
            return f_write(eng, st, fr, a, work, ins)          # (its own branch on the same condition is decided by the path condition)
        none = z3.ULE(st.fault['off'], z3.BitVecVal(h[3], 32))
        outs = eng.branch(st, none)
        if len(outs) == 2:
            s2 = outs[1][0]; s2.frames[-1].ip -= 1; work.append(s2)
        st.faulted = True
        if outs[0][1]:
            st.event('fault', 'write refused', h[0], h[3]); return 0
        o, off = st.find(a[1], 1)
        data = st.files[h[0]]
        if h[1] > len(data): data.extend([0] * (h[1] - len(data)))
        data[h[1]:h[1] + 1] = o.data[off:off + 1]
        h[1] += 1; h[3] += 1
        st.event('fault', 'write accepted in part', h[0], h[3]); return 1
    S['__vp_file_write_some'] = f_write_some
    def f_seek(eng, st, fr, a, work, ins):
        off = a[1]
        if type(off) is not int: off = addr_of(eng, st, off, 0, work, 600)
        h = st.handles[a[0]]; off = sx(off, 64); wh = a[2]
        base = 0 if wh == 0 else h[1] if wh == 1 else len(st.files[h[0]])
        p = base + off
        if p < 0: return (-1) & M64
        h[1] = p; return p
    S['__vp_file_seek'] = f_seek
    S['__vp_file_tell'] = lambda eng, st, fr, a, work, ins: st.handles[a[0]][1]
    def f_close(eng, st, fr, a, work, ins):
        h = st.handles.pop(a[0])
        if st.fault is not None and (h[2] & 16):
            outs = eng.branch(st, st.fault['close'])
            if len(outs) == 2:
                s2 = outs[1][0]; s2.handles[a[0]] = h; s2.frames[-1].ip -= 1; work.append(s2)
            if outs[0][1]:
                st.faulted = True; st.event('fault', 'close failed', h[0]); return (-1) & 0xffffffff
        return 0
    S['__vp_file_close'] = f_close
    # ---- harness intrinsics
    def sym(bits):
        def f(eng, st, fr, a, work, ins):
            nm = st.cstr(a[0]).decode()
            k = st.syms.get(nm, 0); st.syms[nm] = k + 1
            full = '%s#%d' % (nm, k)
            if (full, bits) not in st.symset: st.symlist.append((full, bits)); st.symset.add((full, bits))
            return z3.BitVec(full, bits)
        return f
    S['__vp_sym_u8'] = sym(8); S['__vp_sym_u16'] = sym(16); S['__vp_sym_u32'] = sym(32); S['__vp_sym_u64'] = sym(64); S['__vp_sym_f32'] = sym(32)
    def assume(eng, st, fr, a, work, ins):
        c = a[0]
        if type(c) is int:
            if not c: raise PathEnd('infeasible')
            return
        c = tobool(c)
        if st.model is not None and z3.is_true(st.model.eval(c, model_completion=True)):
            st.pc.append(c); return
        m = eng.model_of(st, c)
        if m is None: raise PathEnd('infeasible')
        st.pc.append(c); st.model = m
    S['__vp_assume'] = assume
    def sym_reset(eng, st, fr, a, work, ins):
        st.syms = {}
    S['__vp_sym_reset'] = sym_reset
    def choice(eng, st, fr, a, work, ins):
        nm = st.cstr(a[0]).decode(); n = a[1]
        forced = st.forced_choices
        if forced is not None and len(st.choices) < len(forced):
            v = forced[len(st.choices)]
            if v >= n: raise PathEnd('infeasible')
            st.choices.append((nm, v)); return v
        for v in range(n - 1, 0, -1):
            s2 = st.clone(); s2.choices.append((nm, v))
            cf = s2.frames[-1]
            if ins.dst is not None: cf.regs[ins.dst] = v
            if ins.op == 'invoke':
                from .interp import goto
                goto(cf, ins.extra[1][0])
            work.append(s2)
        st.choices.append((nm, 0)); return 0
    S['__vp_choice'] = choice
    def cfg(eng, st, fr, a, work, ins):
        nm = st.cstr(a[0]).decode()
        if nm not in st.cfg: raise Unsupported('harness asks for configuration value %r which the scenario did not provide' % nm)
        return st.cfg[nm] & M64
    S['__vp_cfg'] = cfg
    def lbl(eng, st, p, work):
        if type(p) is not int: p = addr_of(eng, st, p, 0, work, 8)
        return st.cstr(p).decode()
    def observe(eng, st, fr, a, work, ins):
        st.obs.append((lbl(eng, st, a[0], work), a[1]))
    S['__vp_obs_u64'] = S['__vp_obs_f32'] = S['__vp_obs_u32'] = observe
    def obs_bytes(eng, st, fr, a, work, ins):
        n = a[2]
        if type(n) is not int: n = addr_of(eng, st, n, 0, work, 4096)
        st.obs.append((lbl(eng, st, a[0], work), [cell_value(c) if c is not None else st.load(a[1] + k, 1) for k, c in enumerate(st.cells(a[1], n))]))
    S['__vp_obs_bytes'] = obs_bytes
    def tag(eng, st, fr, a, work, ins):
        st.obs.append(('#tag', st.cstr(a[0]).decode()))
    S['__vp_tag'] = tag
    def reached(eng, st, fr, a, work, ins):
        st.reached.append(st.cstr(a[0]).decode())
    S['__vp_reached'] = reached
    def program(eng, st, fr, a, work, ins):
        st.prog = a[0]
    S['__vp_program'] = program
    def file_obs(eng, st, fr, a, work, ins):
        # snapshot of a model file into the observations (label, cells)
        nm = st.cstr(a[0]).decode()
        st.obs.append(('#file:' + nm, list(st.files.get(nm, []))))
    S['__vp_obs_file'] = file_obs
    def heap_live(eng, st, fr, a, work, ins):
        st.obs.append((st.cstr(a[0]).decode(), st.live_heap))
    S['__vp_obs_heap'] = heap_live
    install_fmt(eng)

def install_fmt(eng):
    # std::to_string(...) is used only to build what() messages; with any argument it returns "#"
    def to_string(eng, st, fr, a, work, ins):
        p = a[0]
        st.store(p, 8, p + 16); st.store(p + 8, 8, 1); st.store(p + 16, 1, 35); st.store(p + 17, 1, 0)
        return None
    for n in eng.mod.funcs:
        if n.startswith('_ZNSt7__cxx119to_stringE'): eng.stubs[n] = to_string
