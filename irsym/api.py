# Convenience API used by the scenario scripts.
import sys, time
import z3
from . import irparse, core, interp, stubs
from .core import *
from .interp import run, push_call, PathResult

sys.setrecursionlimit(20000)

def load_engine(ll_path):
    mod = irparse.parse_module(open(ll_path).read())
    eng = core.Engine(mod)
    stubs.install(eng)
    interp.compile_module(eng)
    return eng

def fresh_state(eng, files=None, fault=False, unwritable=(), tainted=False, forced_choices=None, cfg=None, assume=None):
    st = eng.init_state.clone()
    if files:
        for k, v in files.items(): st.files[k] = list(v)
    if fault:
        st.fault = {'open': z3.Bool('F_open'), 'off': z3.BitVec('F_off', 32), 'close': z3.Bool('F_close')}
    st.unwritable = tuple(unwritable); st.input_tainted_alloc = tainted; st.forced_choices = forced_choices; st.cfg = dict(cfg or {})
    if assume: st.pc = list(assume)
    return st

def run_fn(eng, fn, args=(), files=None, fault=False, maxsteps=50_000_000, wall=1e9, maxpaths=100000, on_path=None, **kw):
    st = fresh_state(eng, files, fault, **kw)
    push_call(eng, st, fn, list(args), None)
    return run(eng, st, maxsteps, wall, maxpaths, on_path)

def sections(obs):
    """split an observation list at '#tag' markers -> dict tag -> [(label, value)] (a tag used twice gets '#2' ...)"""
    out = {}; cur = out.setdefault('', []); cnt = {}
    for l, v in obs:
        if l == '#tag':
            k = cnt.get(v, 0) + 1; cnt[v] = k
            cur = out.setdefault(v if k == 1 else '%s#%d' % (v, k), [])
        else: cur.append((l, v))
    return out
