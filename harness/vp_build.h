// Builder shared by the save/round-trip harnesses: assembles an object through the public API from concrete
// shape configuration and symbolic payload (see h_c01.cpp for the meaning of the configuration keys).
#ifndef VP_BUILD_H
#define VP_BUILD_H
#include "vp.h"
using namespace vp;
static std::string nm(const char* pfx, int i) { std::string s(pfx); s.push_back(char('0' + i)); return s; }

struct Built { std::vector<std::string> pn, an; std::vector<float> in; int P, C, S, F; };
static void build_object(ezc3d::c3d& c, Built& B) {
  const int P = __vp_cfg("P"), C = __vp_cfg("C"), S = __vp_cfg("S"), F = __vp_cfg("F"), order = __vp_cfg("order");
  const int ex_type = __vp_cfg("ex_type");      // 0 none, 2 int, 4 float, -1 string
  const int ex_group = __vp_cfg("ex_group");    // 0 new group, 1 existing group POINT, 2 new group + second param in it
  const int ex_ndim = __vp_cfg("ex_ndim");      // 0 => default (vector length), else explicit dims
  const int ex_n = __vp_cfg("ex_n");            // number of values
  const int ex_nlen = __vp_cfg("ex_nlen"), ex_dlen = __vp_cfg("ex_dlen"), ex_slen = __vp_cfg("ex_slen");
  const int symnames = __vp_cfg("symnames");
  std::vector<std::string>& pn = B.pn; std::vector<std::string>& an = B.an;
  for (int i = 0; i < P; ++i) pn.push_back(symnames ? sym_str("pn", 2) : nm("p", i));
  for (int i = 0; i < C; ++i) an.push_back(symnames ? sym_str("an", 2) : nm("a", i));
  if (symnames) {
    for (int i = 0; i < P; ++i) for (int j = 0; j < i; ++j) __vp_assume(pn[i][0] != pn[j][0]);
    for (int i = 0; i < C; ++i) for (int j = 0; j < i; ++j) __vp_assume(an[i][0] != an[j][0]);
  }
  // inputs
  std::vector<float>& in = B.in; B.P = P; B.C = C; B.S = S; B.F = F;
  std::vector<Frame> frames;
  for (int f = 0; f < F; ++f) {
    Frame fr; Points pts; Analogs ana;
    for (int i = 0; i < P; ++i) {
      Point pt; pt.name(pn[i]);
      float x = __vp_sym_f32("x"), y = __vp_sym_f32("y"), z = __vp_sym_f32("z"), r = __vp_sym_f32("r");
      pt.x(x); pt.y(y); pt.z(z); pt.residual(r); pts.point(pt);
      in.push_back(x); in.push_back(y); in.push_back(z); in.push_back(r);
    }
    for (int s = 0; s < S; ++s) {
      SubFrame sf;
      for (int i = 0; i < C; ++i) { Channel ch; ch.name(an[i]); float v = __vp_sym_f32("a"); ch.data(v); sf.channel(ch); in.push_back(v); }
      if (C > 0) ana.subframe(sf);
    }
    fr.add(pts, ana);
    frames.push_back(fr);
  }
  // the extra parameter
  // concname: a fixed mixed-case name instead of a free one (checks whose subject is not the name: a long free name forks on every string compare)
  Param ex(ex_nlen ? (__vp_cfg("concname") ? std::string("qXtraNamesz").substr(0, ex_nlen) : sym_str("exname", ex_nlen)) : std::string("X"), sym_str("exdesc", ex_dlen, 1));
  std::vector<int> ex_i; std::vector<float> ex_f; std::vector<std::string> ex_s; std::vector<size_t> dims;
  if (ex_type) {
    for (int i = 0; i < ex_ndim; ++i) { char k[8] = "ex_d0"; k[4] = char('0' + i); dims.push_back(__vp_cfg(k)); }
    if (ex_type == 2) { for (int i = 0; i < ex_n; ++i) ex_i.push_back((int)(short)__vp_sym_u16("iv")); ex.set(ex_i, dims); }
    if (ex_type == 4) { for (int i = 0; i < ex_n; ++i) ex_f.push_back(__vp_sym_f32("fv")); ex.set(ex_f, dims); }
    if (ex_type == -1) { for (int i = 0; i < ex_n; ++i) ex_s.push_back(sym_str("sv", i == 0 ? ex_slen : (unsigned)((ex_slen + i) % (ex_slen + 1)))); ex.set(ex_s, dims); }   // lengths differ, one may be empty
    if (__vp_sym_u8("exlock") & 1) ex.lock();
  }
  const char* grp = ex_group == 1 ? "POINT" : "Grp";
  if (ex_type && ex_group == 1 && ex_nlen) {
    // names are case-insensitive in the format: the new name must differ from the group's existing names after upper-casing
    std::string up = ex.name();
    for (size_t i = 0; i < up.size(); ++i) if (up[i] >= 'a' && up[i] <= 'z') up[i] = char(up[i] - 32);
    const char* existing[] = {"USED", "SCALE", "RATE", "DATA_START", "FRAMES", "LABELS", "DESCRIPTIONS", "UNITS"};
    for (int i = 0; i < 8; ++i) __vp_assume(up != existing[i]);
  }
  const float prate = __vp_cfg("prate4") ? (float)__vp_cfg("prate4") / 4.f : 100.f;   // POINT:RATE in quarter-Hz steps (0: 100 Hz)
  const int norate = __vp_cfg("norate");   // analog-only content without a POINT:RATE (only meaningful with S == 1)
  bool lockgrp = false;
  // construction orders
  if (order == 0) {
    if (!norate) set_rate(c, "POINT", prate);
    if (C) set_rate(c, "ANALOG", prate * S);
    for (int i = 0; i < P; ++i) c.point(pn[i]);
    for (int i = 0; i < C; ++i) c.analog(an[i]);
    if (ex_type) c.parameter(grp, ex);
    for (int f = 0; f < F; ++f) c.frame(frames[f]);
  } else if (order == 1) {
    if (ex_type) c.parameter(grp, ex);
    for (int i = 0; i < C; ++i) c.analog(an[i]);
    for (int i = 0; i < P; ++i) c.point(pn[i]);
    if (C) set_rate(c, "ANALOG", prate * S);
    if (!norate) set_rate(c, "POINT", prate);
    for (int f = 0; f < F; ++f) c.frame(frames[f], f);           // indexed store at the current end (extends by one)
    if (F > 1) c.frame(frames[F - 1], F - 1);                    // and an indexed replace with the same content
    if (ex_type && ex_group != 1) { c.lockGroup(grp); lockgrp = true; }
  } else {
    if (!norate) set_rate(c, "POINT", prate);
    if (C) set_rate(c, "ANALOG", prate * S);
    for (int i = 0; i < C; ++i) c.analog(an[i]);                  // channels must be declared (documented); points need not
    for (int f = 0; f < F; ++f) c.frame(frames[f]);               // points not declared: the first frame declares them
    if (F > 1) c.frame(frames[0], 0);                            // replace in place with the same content
    if (ex_type) { c.parameter(grp, ex); if (ex_group != 1) { c.lockGroup(grp); c.unlockGroup(grp); } }
    if (ex_type && ex_group == 2) { Param q("Second", "d2"); q.set(std::vector<int>() = {7, -8, 9}, std::vector<size_t>() = {3}); c.parameter(grp, q); }
  }
  (void)lockgrp;
  if (__vp_cfg("point_scale")) { Param sc("SCALE"); sc.set(std::vector<float>() = {__vp_sym_f32("pscale")}); c.parameter("POINT", sc); }
  // alignment filler: parameters whose descriptions have concrete lengths summing to cfg pad (steers the
  // parameter-section length through all residues modulo the 512-byte block size)
  int pad = __vp_cfg("pad");
  for (int k = 0; pad >= 0 && k < 3; ++k) {
    int len = pad > 255 ? 255 : pad;
    std::string nm("PAD"); nm.push_back(char('A' + k));
    Param p(nm, std::string(len, 'd')); p.set(std::vector<int>() = {k});
    c.parameter("PADG", p);
    pad -= len; if (pad == 0) pad = -1;
  }
}

static void emit_inputs(const Built& B) {
  const int P = B.P, C = B.C, S = B.S, F = B.F; const std::vector<float>& in = B.in;
  __vp_tag("in");
  __vp_obs_u64("dat.nbFrames", F);
  size_t k = 0;
  for (int f = 0; f < F; ++f) {
    __vp_obs_u64("frm.nbPoints", P);
    for (int i = 0; i < P; ++i) { obs_str("pt.name", B.pn[i]); __vp_obs_f32("pt.x", in[k]); __vp_obs_f32("pt.y", in[k+1]); __vp_obs_f32("pt.z", in[k+2]); __vp_obs_f32("pt.residual", in[k+3]); k += 4; }
    __vp_obs_u64("frm.nbSubframes", C ? S : 0);
    for (int s = 0; s < (C ? S : 0); ++s) { __vp_obs_u64("sub.nbChannels", C); for (int i = 0; i < C; ++i) { obs_str("ch.name", B.an[i]); __vp_obs_f32("ch.data", in[k++]); } }
  }
}
#endif
