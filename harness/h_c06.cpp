// C06: appending / replacing / extending frames and adding columns change exactly what is documented.
// C08: stored data is independent of the caller's objects and of other frames.
#include "vp.h"
using namespace vp;

static Frame sym_frame(int P, int C, int S, const char* tag) {
  Frame fr; Points pts; Analogs ana;
  for (int i = 0; i < P; ++i) { Point p; std::string n("p"); n.push_back(char('0' + i)); p.name(n); p.x(__vp_sym_f32(tag)); p.y(__vp_sym_f32(tag)); p.z(__vp_sym_f32(tag)); p.residual(__vp_sym_f32(tag)); pts.point(p); }
  if (C > 0) for (int s = 0; s < S; ++s) { SubFrame sf; for (int i = 0; i < C; ++i) { Channel ch; std::string n("a"); n.push_back(char('0' + i)); ch.name(n); ch.data(__vp_sym_f32(tag)); sf.channel(ch); } ana.subframe(sf); }
  fr.add(pts, ana);
  return fr;
}
static void setup(ezc3d::c3d& c, int P, int C, int S) {
  set_rate(c, "POINT", 100.f); if (C) set_rate(c, "ANALOG", 100.f * S);
  for (int i = 0; i < P; ++i) { std::string n("p"); n.push_back(char('0' + i)); c.point(n); }
  for (int i = 0; i < C; ++i) { std::string n("a"); n.push_back(char('0' + i)); c.analog(n); }
}
static void dump_d(const ezc3d::c3d& c, const char* tag) { __vp_tag(tag); dump_data(c, true); }
static void dump_f(const Frame& f, const char* tag) { __vp_tag(tag); dump_frame(f, true); }

extern "C" int h_c06() {
  const int n = __vp_cfg("n"), mode = __vp_cfg("mode"), P = __vp_cfg("P"), C = __vp_cfg("C"), S = __vp_cfg("S");
  ezc3d::c3d c; setup(c, P, C, S);
  for (int f = 0; f < n; ++f) c.frame(sym_frame(P, C, S, "init"));
  dump_d(c, "before");
  if (mode == 0 || mode == 1) {
    Frame f = sym_frame(P, C, S, "new");
    dump_f(f, "given");
    __vp_tag("call");
    if (mode == 0) { c.frame(f); __vp_obs_u64("idx", SIZE_MAX); }
    else {
      unsigned long idx = __vp_sym_u64("idx");
      __vp_assume(idx <= (unsigned long)n + __vp_cfg("beyond"));
      __vp_obs_u64("idx", idx);
      c.frame(f, idx);
    }
  } else if (mode == 2) {          // point column
    std::vector<Frame> v;
    const int ncols = __vp_cfg("ncols");     // number of new columns handed over in this one call
    for (int f = 0; f < n; ++f) { Frame fr; Points pts; for (int k = 0; k < ncols; ++k) { Point p; p.name(k ? "newq" : "newp"); p.x(__vp_sym_f32("col")); p.y(__vp_sym_f32("col")); p.z(__vp_sym_f32("col")); p.residual(__vp_sym_f32("col")); pts.point(p); } fr.add(pts); v.push_back(fr); }
    if (__vp_cfg("surplus")) { Point s; s.name("stray"); s.x(__vp_sym_f32("col")); v[n - 1].points_nonConst().point(s); }   // the last frame of the argument carries one point more than the column asked for
    __vp_tag("given"); for (int f = 0; f < n; ++f) dump_frame(v[f], true);
    __vp_tag("call");
    try { c.point(v); __vp_obs_u64("refused", 0); } catch (std::exception&) { __vp_obs_u64("refused", 1); }
  } else if (mode == 3) {          // channel column
    std::vector<Frame> v;
    const int ncols = __vp_cfg("ncols");
    for (int f = 0; f < n; ++f) { Frame fr; Analogs ana; for (int s = 0; s < S; ++s) { SubFrame sf; for (int k = 0; k < ncols; ++k) { Channel ch; ch.name(k ? "newb" : "newa"); ch.data(__vp_sym_f32("col")); sf.channel(ch); } ana.subframe(sf); } fr.add(ana); v.push_back(fr); }
    if (__vp_cfg("surplus")) { Channel s; s.name("stray"); s.data(__vp_sym_f32("col")); v[n - 1].analogs_nonConst().subframe_nonConst(0).channel(s); }
    __vp_tag("given"); for (int f = 0; f < n; ++f) dump_frame(v[f], true);
    __vp_tag("call");
    try { c.analog(v); __vp_obs_u64("refused", 0); } catch (std::exception&) { __vp_obs_u64("refused", 1); }
  } else if (mode == 4) {          // declare a point by name on existing data: a zero column
    c.point("newp");
  } else if (mode == 5) {
    c.analog("newa");
  } else if (mode == 6 || mode == 7) {   // extend beyond the end (gap frames), then add a column: every frame gains exactly that column
    Frame f = sym_frame(P, C, S, "new");
    c.frame(f, (size_t)n + __vp_cfg("beyond"));
    dump_d(c, "extended");
    if (mode == 6) c.point("newp");
    else {
      std::vector<Frame> v; const int total = n + __vp_cfg("beyond") + 1;
      for (int k = 0; k < total; ++k) { Frame fr; Points pts; Point p; p.name("newp"); p.x(__vp_sym_f32("col")); p.y(__vp_sym_f32("col")); p.z(__vp_sym_f32("col")); p.residual(__vp_sym_f32("col")); pts.point(p); fr.add(pts); v.push_back(fr); }
      __vp_tag("given"); for (int k = 0; k < total; ++k) dump_frame(v[k], true);
      c.point(v);
    }
  }
  dump_d(c, "after");
  __vp_reached("c06.end");
  return 0;
}

// C06 kernel: Data::frame with frames that lack points and/or analogs (replace must not keep anything of the old frame)
extern "C" int h_c06_data() {
  const int n = __vp_cfg("n"), variant = __vp_cfg("variant"), where = __vp_cfg("where");   // variant 0 points only, 1 analogs only, 2 empty, 3 both
  ezc3d::DataNS::Data d;
  for (int f = 0; f < n; ++f) d.frame(sym_frame(2, 1, 2, "init"));
  __vp_tag("before"); __vp_obs_u64("dat.nbFrames", d.nbFrames()); for (size_t f = 0; f < d.nbFrames(); ++f) dump_frame(d.frame(f), true);
  Frame g = sym_frame(variant == 1 || variant == 2 ? 0 : 2, variant == 0 || variant == 2 ? 0 : 1, 2, "new");
  dump_f(g, "given");
  size_t idx = where < 0 ? SIZE_MAX : (size_t)where;
  __vp_tag("call"); __vp_obs_u64("idx", idx);
  d.frame(g, idx);
  __vp_tag("after"); __vp_obs_u64("dat.nbFrames", d.nbFrames()); for (size_t f = 0; f < d.nbFrames(); ++f) dump_frame(d.frame(f), true);
  __vp_reached("c06.end");
  return 0;
}

// C06 kernel: the same append / resize-then-assign idiom of Points, Analogs and SubFrame with a free index
extern "C" int h_c06_inner() {
  const int kind = __vp_cfg("kind"), n = __vp_cfg("n"), append = __vp_cfg("append"), self = __vp_cfg("self");   // self: the element handed over is element 0 of the collection itself
  unsigned long idx = append ? SIZE_MAX : __vp_sym_u64("idx");
  if (!append) __vp_assume(idx <= (unsigned long)n + __vp_cfg("beyond"));
  __vp_tag("in");
  if (kind == 0) {
    Points c; for (int i = 0; i < n; ++i) { Point p; float v = __vp_sym_f32("v"); p.x(v); p.residual(v); __vp_obs_f32("in", v); c.point(p); }
    Point q; float w = __vp_sym_f32("w"); q.x(w); q.residual(w); q.name("new"); __vp_obs_f32("new", self ? ((const Points&)c).point(0).x() : w); __vp_obs_u64("idx", idx);
    const Point& arg = self ? ((const Points&)c).point(0) : q;
    if (append) c.point(arg); else c.point(arg, idx);
    __vp_tag("out"); __vp_obs_u64("count", c.nbPoints());
    const Points& cc = c;
    for (size_t i = 0; i < cc.nbPoints(); ++i) { __vp_obs_f32("x", cc.point(i).x()); __vp_obs_f32("r", cc.point(i).residual()); __vp_obs_f32("y", cc.point(i).y()); }
  } else if (kind == 1) {
    Analogs c; for (int i = 0; i < n; ++i) { SubFrame sf; Channel ch; float v = __vp_sym_f32("v"); ch.data(v); sf.channel(ch); __vp_obs_f32("in", v); c.subframe(sf); }
    SubFrame q; Channel ch; float w = __vp_sym_f32("w"); ch.data(w); q.channel(ch); __vp_obs_f32("new", self ? ((const Analogs&)c).subframe(0).channel(0).data() : w); __vp_obs_u64("idx", idx);
    const SubFrame& arg = self ? ((const Analogs&)c).subframe(0) : q;
    if (append) c.subframe(arg); else c.subframe(arg, idx);
    __vp_tag("out"); __vp_obs_u64("count", c.nbSubframes());
    const Analogs& cc = c;
    for (size_t i = 0; i < cc.nbSubframes(); ++i) { __vp_obs_u64("n", cc.subframe(i).nbChannels()); if (cc.subframe(i).nbChannels()) __vp_obs_f32("x", cc.subframe(i).channel(0).data()); }
  } else {
    SubFrame c; for (int i = 0; i < n; ++i) { Channel ch; float v = __vp_sym_f32("v"); ch.data(v); __vp_obs_f32("in", v); c.channel(ch); }
    Channel q; float w = __vp_sym_f32("w"); q.data(w); q.name("new"); __vp_obs_f32("new", self ? ((const SubFrame&)c).channel(0).data() : w); __vp_obs_u64("idx", idx);
    const Channel& arg = self ? ((const SubFrame&)c).channel(0) : q;
    if (append) c.channel(arg); else c.channel(arg, idx);
    __vp_tag("out"); __vp_obs_u64("count", c.nbChannels());
    const SubFrame& cc = c;
    for (size_t i = 0; i < cc.nbChannels(); ++i) { __vp_obs_f32("x", cc.channel(i).data()); obs_str("name", cc.channel(i).name()); }
  }
  __vp_reached("c06.end");
  return 0;
}

// ---- C08
extern "C" int h_c08() {
  const int fam = __vp_cfg("family"), P = __vp_cfg("P"), C = __vp_cfg("C"), S = __vp_cfg("S");
  ezc3d::c3d c; setup(c, P, C, S);
  if (fam == 0 || fam == 1) {
    // hand over f (append or indexed), then mutate the caller's f through every public mutator
    Frame f = sym_frame(P, C, S, "f");
    dump_f(f, "given");
    const int pre = fam == 1 ? __vp_cfg("pre") : 0, at = fam == 1 ? __vp_cfg("at") : 0;    // pre frames already stored; at < pre replaces one of them
    for (int k = 0; k < pre; ++k) c.frame(sym_frame(P, C, S, "init"));
    // rv: the frame arrives as a temporary that shares its handles with the caller's frame (a by-value getter, Frame(f));
    //     rv = 2: a named shallow copy that is moved from
    const int rv = __vp_cfg("rv");
    if (rv == 0) { if (fam == 0) c.frame(f); else c.frame(f, (size_t)at); }
    else if (rv == 1) { if (fam == 0) c.frame(Frame(f)); else c.frame(Frame(f), (size_t)at); }
    else { Frame h(f); if (fam == 0) c.frame(std::move(h)); else c.frame(std::move(h), (size_t)at); }
    const int mut = __vp_cfg("mutator");
    if (mut == 0 && P) { f.points_nonConst().point_nonConst(0).x(__vp_sym_f32("m")); f.points_nonConst().point_nonConst(0).residual(__vp_sym_f32("m")); }
    else if (mut == 1) { Point q; q.name("zz"); q.y(__vp_sym_f32("m")); f.points_nonConst().point(q, 0); }
    else if (mut == 2) { Point q; q.name("extra"); f.points_nonConst().point(q); }
    else if (mut == 3 && C) { f.analogs_nonConst().subframe_nonConst(0).channel_nonConst(0).data(__vp_sym_f32("m")); }
    else if (mut == 4) { SubFrame sf; Channel ch; ch.name("extra"); ch.data(__vp_sym_f32("m")); sf.channel(ch); f.analogs_nonConst().subframe(sf, 0); }
    else if (mut == 5 && P) { f.points_nonConst().point_nonConst(0).name("renamed"); }
    else if (mut == 6) { Points other; f.add(other); Analogs oa; f.add(oa); }       // replaces the caller's handles
    else if (mut == 7 && P) { f.points_nonConst().point_nonConst("p0").z(__vp_sym_f32("m")); }
    else if (mut == 8) { SubFrame sf; Channel ch; ch.name("more"); ch.data(__vp_sym_f32("m")); sf.channel(ch); f.analogs_nonConst().subframe(sf); }   // appends a sub-frame
    __vp_tag("stored"); dump_frame(c.data().frame(at), true);
  } else if (fam == 2) {
    // README idiom: the same frame object appended several times, then column adds
    Frame f = sym_frame(P, C, S, "f");
    dump_f(f, "given");
    const int times = __vp_cfg("times");
    const int rv2 = __vp_cfg("rv");
    for (int k = 0; k < times; ++k) { if (rv2) c.frame(Frame(f)); else c.frame(f); }
    const int col = __vp_cfg("column");
    if (col == 1) c.point("newp"); else if (col == 2) c.analog("newa");
    else if (col == 3) {
      std::vector<Frame> v;
      for (int k = 0; k < times; ++k) { Frame fr; Points pts; Point p; p.name("newp"); p.x(__vp_sym_f32("col")); pts.point(p); fr.add(pts); v.push_back(fr); }
      __vp_tag("col"); for (int k = 0; k < times; ++k) __vp_obs_f32("col.x", v[k].points().point(0).x());
      c.point(v);
    }
    dump_d(c, "after");
    // editing one stored frame through a reload-free path: store a different frame at index 0
    if (__vp_cfg("replace0")) { Frame g = sym_frame(P, C, S, "g"); dump_f(g, "given2"); c.frame(g, 0); dump_d(c, "after2"); }
  } else if (fam == 3) {
    // the same vector of frames handed to point() twice under different names
    const int n = __vp_cfg("times");
    for (int k = 0; k < n; ++k) c.frame(sym_frame(P, C, S, "f"));
    std::vector<Frame> v;
    for (int k = 0; k < n; ++k) { Frame fr; Points pts; Point p; p.name("colA"); p.x(__vp_sym_f32("col")); p.y(__vp_sym_f32("col")); pts.point(p); fr.add(pts); v.push_back(fr); }
    __vp_tag("col"); for (int k = 0; k < n; ++k) { __vp_obs_f32("col.x", v[k].points().point(0).x()); __vp_obs_f32("col.y", v[k].points().point(0).y()); }
    c.point(v);
    for (int k = 0; k < n; ++k) { v[k].points_nonConst().point_nonConst(0).name("colB"); v[k].points_nonConst().point_nonConst(0).x(__vp_sym_f32("col2")); }
    __vp_tag("col2"); for (int k = 0; k < n; ++k) { __vp_obs_f32("col.x", v[k].points().point(0).x()); __vp_obs_f32("col.y", v[k].points().point(0).y()); }
    c.point(v);
    for (int k = 0; k < n; ++k) v[k].points_nonConst().point_nonConst(0).y(__vp_sym_f32("m"));   // caller keeps mutating
    dump_d(c, "after");
  }
  if (fam == 4) {
    // the frame handed over is one of the data set's own frames (append: the data set grows while the argument is read)
    const int n = __vp_cfg("times");
    for (int k = 0; k < n; ++k) c.frame(sym_frame(P, C, S, "f"));
    dump_d(c, "before");
    const int how = __vp_cfg("column");
    if (how == 0) c.frame(c.data().frame(0));
    else if (how == 1) c.frame(c.data().frame(n - 1), (size_t)n + 1);
    else c.frame(c.data().frame(0), (size_t)n - 1);
    dump_d(c, "after");
  }
  if (fam == 5) {
    // frames created as a gap by one indexed store must be independent of each other: a column lands once in each
    const int n = __vp_cfg("times");
    for (int k = 0; k < n; ++k) c.frame(sym_frame(P, C, S, "f"));
    c.frame(sym_frame(P, C, S, "g"), (size_t)n + 3);
    dump_d(c, "before");
    if (__vp_cfg("column") == 0) c.point("newp"); else c.analog("newa");
    dump_d(c, "after");
  }
  __vp_reached("c08.end");
  return 0;
}
