// History exploration (C05, C07, C10, C13): from a start state, `depth` operations are drawn with
// __vp_choice (the engine forks on it, so each path is one history).  Around every call the harness emits
//   "before"  full dump            (C10: a refused call leaves it unchanged)
//   "call"    op id, facts about the argument computed with plain loops over public accessors, outcome class
//   "after"   full dump            (C05: the three views agree; C10)
// All frame payloads are symbolic.  Only the public API is used.
#include "vp.h"
using namespace vp;

static int classify() {
  try { throw; }
  catch (std::ios_base::failure&) { return 1; }
  catch (std::invalid_argument&) { return 2; }
  catch (std::out_of_range&) { return 3; }
  catch (std::length_error&) { return 4; }
  catch (std::range_error&) { return 5; }
  catch (std::runtime_error&) { return 6; }
  catch (std::logic_error&) { return 7; }
  catch (std::bad_alloc&) { return 8; }
  catch (std::exception&) { return 9; }
}
static std::vector<std::string> plabels(const ezc3d::c3d& c) { return c.parameters().group("POINT").parameter("LABELS").valuesAsString(); }
static std::vector<std::string> alabels(const ezc3d::c3d& c) {
  if (!c.parameters().group("ANALOG").nbParameters()) return std::vector<std::string>();      // Optotrak layout: an ANALOG group without parameters declares no channel
  return c.parameters().group("ANALOG").parameter("LABELS").valuesAsString();
}
static size_t subframes(const ezc3d::c3d& c) { size_t s = c.header().nbAnalogByFrame(); return s ? s : 1; }
static std::string num(const char* p, size_t i) { std::string s(p); s.push_back(char('0' + i % 10)); return s; }

// a frame that follows the current declarations, with deviations
struct Dev { int dP, dC; bool rename, dup, nopoints, noanalogs, renamefirst, swap; Dev() : dP(0), dC(0), rename(false), dup(false), nopoints(false), noanalogs(false), renamefirst(false), swap(false) {} };
static Frame make_frame(const ezc3d::c3d& c, const Dev& d) {
  std::vector<std::string> pl = plabels(c), al = alabels(c);
  Frame fr; Points pts; Analogs ana;
  long nP = d.nopoints ? 0 : (long)pl.size() + d.dP; if (nP < 0) nP = 0;
  for (long i = 0; i < nP; ++i) {
    Point p; p.name(i < (long)pl.size() ? pl[i] : num("xp", i));
    if (d.rename && i == nP - 1) { std::string s = sym_str("rn", 2); for (size_t k = 0; k < pl.size(); ++k) __vp_assume(s != pl[k]); p.name(s); }
    if (d.dup && i == nP - 1 && nP > 1) p.name(pl[0]);
    if (d.renamefirst && i == 0) { std::string s2 = sym_str("rf", 2); for (size_t k = 0; k < pl.size(); ++k) __vp_assume(s2 != pl[k]); p.name(s2); }
    p.x(__vp_sym_f32("x")); p.y(__vp_sym_f32("y")); p.z(__vp_sym_f32("z")); p.residual(__vp_sym_f32("r"));
    pts.point(p);
  }
  long nC = d.noanalogs ? 0 : (long)al.size() + d.dC; if (nC < 0) nC = 0;
  if (nC > 0) for (size_t s = 0; s < subframes(c); ++s) {
    SubFrame sf;
    for (long i = 0; i < nC; ++i) { Channel ch; ch.name(i < (long)al.size() ? al[i] : num("xa", i)); ch.data(__vp_sym_f32("a")); sf.channel(ch); }
    ana.subframe(sf);
  }
  fr.add(pts, ana);
  return fr;
}
// facts about a frame argument, for the contract model
static void frame_facts(const ezc3d::c3d& c, const Frame& f, size_t idx) {
  __vp_obs_u64("arg.nbPoints", f.points().nbPoints());
  __vp_obs_u64("arg.nbSubframes", f.analogs().nbSubframes());
  __vp_obs_u64("arg.nbChannels", f.analogs().nbSubframes() ? f.analogs().subframe(0).nbChannels() : 0);
  std::vector<std::string> pl = plabels(c); bool missing = false;
  for (size_t k = 0; k < pl.size(); ++k) { bool found = false; for (size_t i = 0; i < f.points().nbPoints(); ++i) if (f.points().point(i).name() == pl[k]) found = true; if (!found) missing = true; }
  __vp_obs_u64("arg.labelMissing", missing);
  __vp_obs_u64("arg.idx", idx);
}
static int do_frame(ezc3d::c3d& c, const Dev& d, int where) {   // where: -1 append, else index relative (0: 0, 1: last, 2: count, 3: count+2)
  Frame f = make_frame(c, d);
  size_t n = c.data().nbFrames();
  size_t idx = where < 0 ? SIZE_MAX : where == 0 ? 0 : where == 1 ? (n ? n - 1 : 0) : where == 2 ? n : n + 2;
  __vp_obs_u64("call.kind", 0);
  frame_facts(c, f, idx);
  try { if (where < 0) c.frame(f); else c.frame(f, idx); } catch (...) { return classify(); }
  return 0;
}
// point / channel columns: vector of frames
static int do_point_col(ezc3d::c3d& c, int dFrames, int names, bool empty) {   // names: 0 fresh, 1 duplicate of an existing label, 2 two new points, the second a duplicate
  std::vector<Frame> v; std::vector<std::string> pl = plabels(c);
  long n = empty ? 0 : (long)c.data().nbFrames() + dFrames; if (n < 0) n = 0;
  std::vector<std::string> nm;
  if (names == 0) nm.push_back("newp");
  else if (names == 1) nm.push_back(pl.size() ? pl[0] : std::string("newp"));
  else if (names == 2) { nm.push_back("newp"); nm.push_back(pl.size() ? pl[0] : std::string("newq")); }
  else if (names == 4) nm.push_back(pl.size() ? pl.back() : std::string("newp"));
  else if (names == 5) nm.push_back("newp");
  else { nm.push_back("newp"); nm.push_back("newq"); }
  for (long f = 0; f < n; ++f) {
    Frame fr; Points pts;
    for (size_t k = 0; k < nm.size(); ++k) { Point p; p.name(nm[k]); p.x(__vp_sym_f32("cx")); p.y(__vp_sym_f32("cy")); p.z(__vp_sym_f32("cz")); p.residual(__vp_sym_f32("cr")); pts.point(p); }
    fr.add(pts); v.push_back(fr);
  }
  if (names == 5 && v.size() > 1) {   // ragged the other way: a later frame carries one point more than the first
    Point p; p.name("stray"); p.x(__vp_sym_f32("cx")); v.back().points_nonConst().point(p);
  }
  if (names == 3 && v.size()) {   // ragged: the last frame lacks the second new point
    Points pts; pts.point(v.back().points().point(0)); v.back().add(pts);
  }
  bool exists = false; for (size_t k = 0; k < nm.size(); ++k) for (size_t i = 0; i < pl.size(); ++i) if (nm[k] == pl[i]) exists = true;
  __vp_obs_u64("arg.ragged", (names == 3 && v.size()) || (names == 5 && v.size() > 1));
  __vp_obs_u64("call.kind", 1); __vp_obs_u64("arg.nbFrames", v.size()); __vp_obs_u64("arg.nbNames", v.size() ? nm.size() : 0); __vp_obs_u64("arg.nameExists", exists);
  try { c.point(v); } catch (...) { return classify(); }
  return 0;
}
static int do_channel_col(ezc3d::c3d& c, int dFrames, int dSub, int names, bool empty) {
  std::vector<Frame> v; std::vector<std::string> al = alabels(c);
  long n = empty ? 0 : (long)c.data().nbFrames() + dFrames; if (n < 0) n = 0;
  long ns = (long)c.header().nbAnalogByFrame() + dSub; if (ns < 0) ns = 0;
  std::vector<std::string> nm;
  if (names == 0) nm.push_back("newa");
  else if (names == 1) nm.push_back(al.size() ? al[0] : std::string("newa"));
  else if (names == 2) { nm.push_back("newa"); nm.push_back(al.size() ? al[0] : std::string("newb")); }
  else if (names == 4) nm.push_back(al.size() ? al.back() : std::string("newa"));
  else if (names == 5) nm.push_back("newa");
  else { nm.push_back("newa"); nm.push_back("newb"); }
  for (long f = 0; f < n; ++f) {
    Frame fr; Analogs ana;
    for (long s = 0; s < ns; ++s) { SubFrame sf; for (size_t k = 0; k < nm.size(); ++k) { Channel ch; ch.name(nm[k]); ch.data(__vp_sym_f32("ca")); sf.channel(ch); } ana.subframe(sf); }
    fr.add(ana); v.push_back(fr);
  }
  if (names == 5 && v.size() > 1 && ns > 0) {   // a later frame carries one channel more in its last sub-frame
    Channel ch; ch.name("stray"); ch.data(__vp_sym_f32("ca")); v.back().analogs_nonConst().subframe_nonConst(ns - 1).channel(ch);
  }
  if (names == 3 && v.size() && ns > 0) {   // ragged: the last sub-frame of the last frame lacks the second new channel
    SubFrame sf; sf.channel(v.back().analogs().subframe(ns - 1).channel(0)); v.back().analogs_nonConst().subframe(sf, ns - 1);
  }
  bool exists = false; for (size_t k = 0; k < nm.size(); ++k) for (size_t i = 0; i < al.size(); ++i) if (nm[k] == al[i]) exists = true;
  __vp_obs_u64("arg.ragged", (names == 3 && v.size() && ns > 0) || (names == 5 && v.size() > 1 && ns > 0));
  __vp_obs_u64("call.kind", 2); __vp_obs_u64("arg.nbFrames", v.size()); __vp_obs_u64("arg.nbSubframes", v.size() ? ns : 0); __vp_obs_u64("arg.nbNames", (v.size() && ns) ? nm.size() : 0); __vp_obs_u64("arg.nameExists", exists);
  try { c.analog(v); } catch (...) { return classify(); }
  return 0;
}
static int do_rate(ezc3d::c3d& c, const char* g, float r) {
  __vp_obs_u64("call.kind", 3); __vp_obs_u64("arg.analog", g[0] == 'A'); __vp_obs_u64("arg.zero", r == 0.f);
  try { set_rate(c, g, r); } catch (...) { return classify(); }
  return 0;
}
static int do_param(ezc3d::c3d& c, int variant) {
  __vp_obs_u64("call.kind", 4); __vp_obs_u64("arg.variant", variant);
  try {
    if (variant == 0) { Param p("VALUES", "d"); p.set(std::vector<int>() = {(int)(short)__vp_sym_u16("pi"), (int)(short)__vp_sym_u16("pi")}); c.parameter("NEWGRP", p); }
    else if (variant == 1) { Param p("EXTRA"); p.set(std::vector<float>() = {__vp_sym_f32("pf")}); c.parameter("POINT", p); }
    else if (variant == 2) { Param p("EXTRA", "again"); p.set(std::vector<std::string>() = {"ab", "c"}); c.parameter("POINT", p); }
    else if (variant == 3) { Param p(""); p.set(1); c.parameter("POINT", p); }                    // unnamed: refused
    else if (variant == 4) { Param p("UNTYPED"); c.parameter("FRESHGRP", p); }                    // untyped into a new group: refused
    else if (variant == 5) { Param p("UNTYPED"); c.parameter("POINT", p); }                       // untyped into an existing group: refused
  } catch (...) { return classify(); }
  return 0;
}
static int do_lock(ezc3d::c3d& c, int variant) {
  __vp_obs_u64("call.kind", 5); __vp_obs_u64("arg.variant", variant);
  try {
    if (variant == 0) c.lockGroup("POINT"); else if (variant == 1) c.unlockGroup("POINT"); else if (variant == 2) c.lockGroup("NOSUCHGROUP"); else c.unlockGroup("NOSUCHGROUP");
  } catch (...) { return classify(); }
  return 0;
}
static int do_declare(ezc3d::c3d& c, bool point, int variant) {   // 0 fresh, 1 duplicate, 2 trailing space
  std::vector<std::string> l = point ? plabels(c) : alabels(c);
  // a duplicate declaration is only specified when frames exist (it then goes through the column adder)
  if (variant == 1 && c.data().nbFrames() == 0 && !__vp_cfg("dupdeclare")) variant = 0;
  std::string nm = variant == 1 && l.size() ? l[0] : variant == 2 ? std::string("sp ") : num(point ? "dp" : "da", l.size());
  bool exists = false; for (size_t i = 0; i < l.size(); ++i) if (l[i] == (variant == 2 ? std::string("sp") : nm)) exists = true;
  __vp_obs_u64("call.kind", point ? 6 : 7); __vp_obs_u64("arg.nameExists", exists);
  try { if (point) c.point(nm); else c.analog(nm); } catch (...) { return classify(); }
  return 0;
}

enum { NOPS = 58 };
static int apply(ezc3d::c3d*& c, unsigned op) {
  Dev d;
  switch (op) {
    case 0: return do_frame(*c, d, -1);
    case 1: d.dP = -1; return do_frame(*c, d, -1);
    case 2: d.dP = 1; return do_frame(*c, d, -1);
    case 3: d.rename = true; return do_frame(*c, d, -1);
    case 4: d.dup = true; return do_frame(*c, d, -1);
    case 5: d.nopoints = true; d.noanalogs = true; return do_frame(*c, d, -1);
    case 6: d.noanalogs = true; return do_frame(*c, d, -1);
    case 7: d.nopoints = true; return do_frame(*c, d, -1);
    case 8: d.dC = -1; return do_frame(*c, d, -1);
    case 9: d.dC = 1; return do_frame(*c, d, -1);
    case 10: return do_frame(*c, d, 0);
    case 11: return do_frame(*c, d, 1);
    case 12: return do_frame(*c, d, 2);
    case 13: return do_frame(*c, d, 3);
    case 14: d.dP = 1; return do_frame(*c, d, 0);
    case 15: return do_point_col(*c, 0, 0, false);
    case 16: return do_point_col(*c, -1, 0, false);
    case 17: return do_point_col(*c, 0, 0, true);
    case 18: return do_point_col(*c, 0, 1, false);
    case 19: return do_point_col(*c, 0, 2, false);
    case 20: return do_channel_col(*c, 0, 0, 0, false);
    case 21: return do_channel_col(*c, -1, 0, 0, false);
    case 22: return do_channel_col(*c, 0, -1, 0, false);
    case 23: return do_channel_col(*c, 0, 0, 0, true);
    case 24: return do_channel_col(*c, 0, 0, 1, false);
    case 25: return do_channel_col(*c, 0, 0, 2, false);
    case 26: return do_rate(*c, "POINT", 0.f);
    case 27: return do_rate(*c, "POINT", 50.f);
    case 28: return do_rate(*c, "POINT", 100.f);
    case 29: return do_rate(*c, "ANALOG", 0.f);
    case 30: return do_rate(*c, "ANALOG", 100.f);
    case 31: return do_rate(*c, "ANALOG", 200.f);
    case 32: return do_param(*c, 0);
    case 33: return do_param(*c, 1);
    case 34: return do_param(*c, 2);
    case 35: return do_param(*c, 3);
    case 36: return do_param(*c, 4);
    case 37: return do_param(*c, 5);
    case 38: return do_lock(*c, 0);
    case 39: return do_lock(*c, 2);
    case 40: return do_declare(*c, true, 0);
    case 41: return do_declare(*c, true, 1);
    case 42: return do_declare(*c, false, 0);
    case 44: return do_point_col(*c, 0, 3, false);
    case 45: return do_channel_col(*c, 0, 0, 3, false);
    case 46: return do_rate(*c, "ANALOG", 300.f);
    case 47: d.renamefirst = true; return do_frame(*c, d, -1);
    case 48: d.dP = -1; return do_frame(*c, d, 1);
    case 49: d.rename = true; return do_frame(*c, d, 0);
    case 50: return do_point_col(*c, 1, 0, false);
    case 51: return do_point_col(*c, 0, 4, false);
    case 52: return do_channel_col(*c, 1, 0, 0, false);
    case 53: return do_channel_col(*c, 0, 0, 4, false);
    case 54: return do_point_col(*c, 0, 5, false);
    case 55: return do_channel_col(*c, 0, 0, 5, false);
    case 56: return do_declare(*c, false, 1);
    case 57: return do_declare(*c, true, 2);
    case 43: {   // save and reload
      __vp_obs_u64("call.kind", 8);
      try { c->write("hist.c3d"); ezc3d::c3d* n = new ezc3d::c3d("hist.c3d"); delete c; c = n; } catch (...) { return classify(); }
      return 0;
    }
  }
  return 0;
}

static ezc3d::c3d* start_state(int s) {
  if ((s >= 3 && s <= 6) || s == 8 || s == 9) return new ezc3d::c3d("in.c3d");
  ezc3d::c3d* c = new ezc3d::c3d();
  if (s >= 1 && s != 7) {
    set_rate(*c, "POINT", 100.f); set_rate(*c, "ANALOG", 200.f);
    c->point("p0"); c->point("p1"); c->analog("a0");
  }
  if (s == 2) { Dev d; c->frame(make_frame(*c, d)); c->frame(make_frame(*c, d)); }
  if (s == 7) {     // two channels declared under the same name on a frame-less object (accepted), as many files in the wild have it
    set_rate(*c, "POINT", 100.f); set_rate(*c, "ANALOG", 200.f);
    c->point("p0"); c->point("p1"); c->analog("dup"); c->analog("dup");
    for (int k = 0; k < 2; ++k) {
      Frame fr; Points pts; Analogs ana;
      for (int i = 0; i < 2; ++i) { Point p; p.name(num("p", i)); p.x(__vp_sym_f32("x")); p.y(__vp_sym_f32("y")); p.z(__vp_sym_f32("z")); p.residual(__vp_sym_f32("r")); pts.point(p); }
      for (int sfi = 0; sfi < 2; ++sfi) { SubFrame sf; for (int i = 0; i < 2; ++i) { Channel ch; ch.name("dup"); ch.data(__vp_sym_f32("a")); sf.channel(ch); } ana.subframe(sf); }
      fr.add(pts, ana); c->frame(fr);
    }
  }
  return c;
}

extern "C" int h_hist() {
  const int start = __vp_cfg("start"), depth = __vp_cfg("depth");
  ezc3d::c3d* c = start_state(start);
  int out = 0;
  for (int k = 0; k < depth; ++k) {
    dump_all(*c, "before", false);
    unsigned op = __vp_choice("op", NOPS);
    // start 5 is an object whose ANALOG group holds no parameter at all (Optotrak layout).  Giving it ONE of the mandatory ANALOG
    // parameters makes a partially declared group, which is outside the claim (the mandatory parameters are a precondition of every call)
    if (start == 5 && (op == 29 || op == 30 || op == 31 || op == 46)) __vp_assume(0);
    __vp_tag("call");
    __vp_obs_u64("call.op", op);
    out = apply(c, op);
    __vp_obs_u64("call.outcome", out);
    dump_all(*c, "after", false);
  }
  // the object must still be usable: print, save, reload (C10, C13)
  const int finish = __vp_cfg("finish");   // 1: always, 2: only when the last call was refused
  if (finish == 4) {      // C03: the saved file itself is the observation
    dump_all(*c, "pre", true);
    c->write("out.c3d");
    __vp_tag("files"); __vp_obs_file("out.c3d");
  }
  if (finish == 3) {
    dump_all(*c, "pre", false);
    c->write("final.c3d");
    ezc3d::c3d r("final.c3d");
    dump_all(r, "post", false);
  }
  if (finish == 1 || (finish == 2 && out != 0)) {
    c->print();
    try { c->write("final.c3d"); ezc3d::c3d r("final.c3d"); __vp_tag("final"); __vp_obs_u64("final.reload", 1); }
    catch (...) { __vp_tag("final"); __vp_obs_u64("final.reload", 0); __vp_obs_u64("final.class", classify()); }
  }
  delete c;
  __vp_reached("hist.end");
  return 0;
}

// C05 kernel: the sub-frame ratio with FREE rates.  ANALOG:RATE is set `steps` times to free finite floats (POINT:RATE
// free once); after every call the header's analog view must agree with ANALOG:USED.
extern "C" int h_rates() {
  const int n = __vp_cfg("channels"), steps = __vp_cfg("steps");
  ezc3d::c3d c;
  float pr = 100.f;
  if (__vp_cfg("free_point_rate")) { pr = __vp_sym_f32("prate"); __vp_assume(pr >= 1.f && pr <= 2000.f); }
  set_rate(c, "POINT", pr);
  for (int i = 0; i < n; ++i) c.analog(num("a", i));
  for (int k = 0; k < steps; ++k) {
    float r = __vp_sym_f32("arate");
    __vp_assume(r >= 0.f && r <= 20000.f);
    set_rate(c, "ANALOG", r);
    __vp_tag("after");
    __vp_obs_u64("hdr.nbAnalogs", c.header().nbAnalogs());
    __vp_obs_u64("hdr.nbAnalogsMeasurement", c.header().nbAnalogsMeasurement());
    __vp_obs_u64("hdr.nbAnalogByFrame", c.header().nbAnalogByFrame());
    __vp_obs_u64("ANALOG:USED", (unsigned long)c.parameters().group("ANALOG").parameter("USED").valuesAsInt()[0]);
    __vp_obs_f32("hdr.frameRate", c.header().frameRate());
    __vp_obs_f32("POINT:RATE", c.parameters().group("POINT").parameter("RATE").valuesAsFloat()[0]);
  }
  __vp_reached("rates.end");
  return 0;
}

// C10 kernel: an indexed store FAR beyond the end (the documented "extend" form) around the capacities of the format's
// 16-bit counts.  Whatever the library answers, a refusal must leave the object as it was.  The dump is the header, the
// whole parameter tree, the frame count and the frames that existed before the call (32 768 empty gap frames are not walked).
static void dump_light(const ezc3d::c3d& c, const char* tag, size_t nOld) {
  __vp_tag(tag);
  dump_header(c, false);
  dump_params(c);
  __vp_obs_u64("dat.nbFrames", c.data().nbFrames());
  for (size_t f = 0; f < nOld && f < c.data().nbFrames(); ++f) dump_frame(c.data().frame(f), true);
}
extern "C" int h_far() {
  ezc3d::c3d* c = start_state(__vp_cfg("start"));
  const size_t idx = (size_t)__vp_cfg("idx"), nOld = c->data().nbFrames();
  Dev d; Frame f = make_frame(*c, d);
  dump_light(*c, "before", nOld);
  int out = 0;
  __vp_tag("call");
  try { c->frame(f, idx); } catch (...) { out = classify(); }
  __vp_obs_u64("call.outcome", out);
  dump_light(*c, "after", nOld);
  if (out == 0) { __vp_tag("stored"); dump_frame(c->data().frame(idx), true); __vp_tag("given"); dump_frame(f, true); }
  delete c;
  __vp_reached("far.end");
  return 0;
}

// C05 kernel: frames replaced in place by frames with ANOTHER sub-frame count (a recording resampled in place).  No count parameter
// changes in such a call; once every frame has been replaced all frames agree again and so must the three views.
extern "C" int h_resub() {
  const int n = __vp_cfg("frames"), s0 = __vp_cfg("sub0"), s1 = __vp_cfg("sub1"), C = __vp_cfg("channels");
  ezc3d::c3d c; set_rate(c, "POINT", 100.f); set_rate(c, "ANALOG", 100.f * s0);
  c.point("p0"); for (int i = 0; i < C; ++i) c.analog(num("a", i));
  for (int pass = 0; pass < 2; ++pass) {
    const int S = pass ? s1 : s0;
    if (pass) set_rate(c, "ANALOG", 100.f * s1);
    for (int k = 0; k < n; ++k) {
      Frame fr; Points pts; Analogs ana;
      Point p; p.name("p0"); p.x(__vp_sym_f32("x")); p.y(__vp_sym_f32("y")); p.z(__vp_sym_f32("z")); p.residual(__vp_sym_f32("r")); pts.point(p);
      for (int s = 0; s < S; ++s) { SubFrame sf; for (int i = 0; i < C; ++i) { Channel ch; ch.name(num("a", i)); ch.data(__vp_sym_f32("a")); sf.channel(ch); } ana.subframe(sf); }
      fr.add(pts, ana);
      if (pass) c.frame(fr, (size_t)k); else c.frame(fr);
    }
  }
  dump_all(c, "after", false);
  __vp_reached("resub.end");
  return 0;
}

// C17: the frame-count limit through the API: one indexed store at `idx` on the declared object gives idx+1 frames; the object is
// saved and, if saving returns, reloaded: counts and POINT:FRAMES of the reloaded object must equal those in memory.
extern "C" int h_far_save() {
  ezc3d::c3d* c = start_state(1);
  const size_t idx = (size_t)__vp_cfg("idx");
  Dev d; Frame f = make_frame(*c, d);
  c->frame(f, idx);
  __vp_tag("mem");
  __vp_obs_u64("hdr.nbFrames", c->header().nbFrames()); __vp_obs_u64("dat.nbFrames", c->data().nbFrames());
  __vp_obs_u64("POINT:FRAMES", (unsigned long)(long)c->parameters().group("POINT").parameter("FRAMES").valuesAsInt()[0]);
  int wrote = 0, loaded = 0;
  try { c->write("far.c3d"); wrote = 1; } catch (std::exception&) { wrote = 0; }
  if (wrote) {
    try {
      ezc3d::c3d r("far.c3d"); loaded = 1;
      __vp_tag("file");
      __vp_obs_u64("hdr.nbFrames", r.header().nbFrames()); __vp_obs_u64("dat.nbFrames", r.data().nbFrames());
      __vp_obs_u64("POINT:FRAMES", (unsigned long)(long)r.parameters().group("POINT").parameter("FRAMES").valuesAsInt()[0]);
    } catch (std::exception&) { loaded = 0; }
  }
  __vp_tag("outcome"); __vp_obs_u64("wrote", wrote); __vp_obs_u64("loaded", loaded);
  delete c;
  __vp_reached("farsave.end");
  return 0;
}
