// C18: objects that share no data can be used from different threads.  Schedules are not enumerated, they are
// eliminated: two "programs" A and B (what two threads would each do with their own objects) are run in both
// sequential orders; the engine attributes every memory access to the program that allocated the object.
#include "vp.h"
using namespace vp;

static void program(int id, const char* in, const char* out1, const char* out2, const char* tag) {
  __vp_program(id);
  {
    // construct, edit, save
    ezc3d::c3d c;
    set_rate(c, "POINT", 100.f); set_rate(c, "ANALOG", 200.f);
    c.point("p0"); c.point("p1"); c.analog("a0");
    for (int f = 0; f < 2; ++f) {
      Frame fr; Points pts; Analogs ana;
      for (int i = 0; i < 2; ++i) { Point p; std::string n("p"); n.push_back(char('0' + i)); p.name(n); p.x(__vp_sym_f32(tag)); p.y(__vp_sym_f32(tag)); p.z(__vp_sym_f32(tag)); p.residual(__vp_sym_f32(tag)); pts.point(p); }
      for (int s = 0; s < 2; ++s) { SubFrame sf; Channel ch; ch.name("a0"); ch.data(__vp_sym_f32(tag)); sf.channel(ch); ana.subframe(sf); }
      fr.add(pts, ana); c.frame(fr);
    }
    Param p("NOTE", "d"); p.set(std::vector<int>() = {(int)(short)__vp_sym_u16(tag), id}); c.parameter("USER", p);
    c.point("late");
    try { c.frame(Frame()); } catch (std::exception&) {}            // a refused call
    c.write(out1);
    dump_all(c, tag, true);
    // load, edit, save, destroy
    ezc3d::c3d d(in);
    d.lockGroup("POINT");
    d.analog("extra");
    d.write(out2);
    ezc3d::c3d e(out2);
    __vp_tag(tag); dump_header(e, true); dump_params(e); dump_data(e);
    try { e.data().frame(99); } catch (std::out_of_range&) {}
    e.print();
  }
  __vp_program(0);
}

extern "C" int h_c18() {
  const int order = __vp_cfg("order");     // 0: A alone, 1: B alone, 2: A then B, 3: B then A
  if (order == 0 || order == 2) program(1, "inA.c3d", "a1.c3d", "a2.c3d", "A");
  if (order != 0) program(2, "inB.c3d", "b1.c3d", "b2.c3d", "B");
  if (order == 3) program(1, "inA.c3d", "a1.c3d", "a2.c3d", "A");
  __vp_tag("files");
  if (order != 1) { __vp_obs_file("a1.c3d"); __vp_obs_file("a2.c3d"); }
  if (order != 0) { __vp_obs_file("b1.c3d"); __vp_obs_file("b2.c3d"); }
  __vp_reached("c18.end");
  return 0;
}
