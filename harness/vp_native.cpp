// Native implementation of the harness intrinsics: symbolic values come from a replay file (VP_REPLAY),
// observations are printed.  Used to confirm solver counterexamples against the real build, and for the
// engine-vs-native differential (translator validation).
#include <cstdio>
#include <cstdlib>
#include <cstring>
#include <map>
#include <string>
#include <vector>
#include <exception>
#include <stdexcept>
namespace {
struct Replay {
  std::map<std::string, unsigned long> sym; std::map<std::string, long> cfg; std::vector<unsigned> choices;
  std::map<std::string, unsigned> cnt; size_t nchoice;
  Replay() : nchoice(0) {
    const char* p = getenv("VP_REPLAY");
    if (!p) return;
    FILE* f = fopen(p, "r"); if (!f) { fprintf(stderr, "cannot open replay %s\n", p); exit(4); }
    char kind[16], name[256]; long long v;
    while (fscanf(f, "%15s %255s %lld", kind, name, &v) == 3) {
      if (!strcmp(kind, "sym")) sym[name] = (unsigned long)v;
      else if (!strcmp(kind, "cfg")) cfg[name] = (long)v;
      else if (!strcmp(kind, "choice")) choices.push_back((unsigned)v);
    }
    fclose(f);
  }
};
Replay& R() { static Replay r; return r; }
unsigned long symval(const char* n) {
  unsigned k = R().cnt[n]++;
  char buf[300]; snprintf(buf, sizeof buf, "%s#%u", n, k);
  std::map<std::string, unsigned long>::iterator it = R().sym.find(buf);
  return it == R().sym.end() ? 0 : it->second;
}
}
extern "C" {
unsigned char  __vp_sym_u8(const char* n) noexcept { return (unsigned char)symval(n); }
unsigned short __vp_sym_u16(const char* n) noexcept { return (unsigned short)symval(n); }
unsigned int   __vp_sym_u32(const char* n) noexcept { return (unsigned int)symval(n); }
unsigned long  __vp_sym_u64(const char* n) noexcept { return symval(n); }
float          __vp_sym_f32(const char* n) noexcept { unsigned u = (unsigned)symval(n); float f; memcpy(&f, &u, 4); return f; }
long __vp_cfg(const char* n) noexcept { std::map<std::string, long>::iterator it = R().cfg.find(n); if (it == R().cfg.end()) { fprintf(stderr, "missing cfg %s\n", n); exit(4); } return it->second; }
void __vp_assume(bool c) noexcept { if (!c) { printf("#assume-failed\n"); fflush(stdout); _Exit(3); } }
unsigned __vp_choice(const char*, unsigned n) noexcept { unsigned v = R().nchoice < R().choices.size() ? R().choices[R().nchoice] : 0; R().nchoice++; return v < n ? v : 0; }
void __vp_tag(const char* t) noexcept { printf("#tag %s\n", t); }
void __vp_obs_u64(const char* t, unsigned long v) noexcept { printf("%s %lu\n", t, v); }
void __vp_obs_f32(const char* t, float v) noexcept { unsigned u; memcpy(&u, &v, 4); printf("%s %u\n", t, u); }
void __vp_obs_bytes(const char* t, const char* p, unsigned long n) noexcept { printf("%s [", t); for (unsigned long i = 0; i < n; ++i) printf("%02x", (unsigned char)p[i]); printf("]\n"); }
void __vp_obs_file(const char* name) noexcept {
  printf("#file:%s [", name); FILE* f = fopen(name, "rb");
  if (f) { int c; while ((c = fgetc(f)) != EOF) printf("%02x", c); fclose(f); }
  printf("]\n");
}
void __vp_reached(const char* t) noexcept { printf("#reached %s\n", t); }
void __vp_program(int) noexcept {}
void __vp_sym_reset() noexcept { R().cnt.clear(); }
}
#ifndef VP_MAIN
#define VP_MAIN vp_main
#endif
extern "C" int VP_MAIN();
int main() {
  int r;
  try { r = VP_MAIN(); }
  catch (std::exception&) { printf("#uncaught std::exception\n"); fflush(stdout); return 10; }
  catch (...) { printf("#uncaught other\n"); fflush(stdout); return 11; }
  fflush(stdout); return r;
}
