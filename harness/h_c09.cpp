// C09: parameter and group edits change exactly what was asked.
#include "vp.h"
using namespace vp;
static int classify() {
  try { throw; }
  catch (std::ios_base::failure&) { return 1; } catch (std::invalid_argument&) { return 2; } catch (std::out_of_range&) { return 3; }
  catch (std::length_error&) { return 4; } catch (std::range_error&) { return 5; } catch (std::runtime_error&) { return 6; }
  catch (std::logic_error&) { return 7; } catch (std::bad_alloc&) { return 8; } catch (std::exception&) { return 9; }
}
// (a) kernel: Parameter::set(data, dims) with free extents
extern "C" int h_c09_set() {
  const int type = __vp_cfg("type"), ndata = __vp_cfg("ndata"), ndims = __vp_cfg("ndims"), slen = __vp_cfg("slen"), prior = __vp_cfg("prior");
  Param p("TARGET", "desc");
  if (prior == 1) p.set(std::vector<int>() = {7, 8, 9});
  else if (prior == 2) p.set(std::vector<std::string>() = {"old", "er"});
  else if (prior == 3) { p.set(std::vector<float>() = {1.5f}); p.lock(); }
  __vp_tag("before"); dump_param(p, false);
  std::vector<size_t> dims;
  __vp_tag("dims");
  for (int i = 0; i < ndims; ++i) { unsigned long d = __vp_sym_u8("dim"); dims.push_back(d); __vp_obs_u64("dim", d); }
  int out = 0;
  __vp_tag("given");
  try {
    if (type == 2) { std::vector<int> v; for (int i = 0; i < ndata; ++i) { int x = (int)__vp_sym_u32("iv"); v.push_back(x); __vp_obs_u64("v", (unsigned long)(long)x); } p.set(v, dims); }
    else if (type == 4) { std::vector<float> v; for (int i = 0; i < ndata; ++i) { float x = __vp_sym_f32("fv"); v.push_back(x); __vp_obs_f32("v", x); } p.set(v, dims); }
    else { std::vector<std::string> v; for (int i = 0; i < ndata; ++i) { std::string x = sym_str("sv", (unsigned)((slen + i) % (slen + 1)), 1); v.push_back(x); obs_str("v", x); } p.set(v, dims); }
  } catch (...) { out = classify(); }
  __vp_tag("call"); __vp_obs_u64("outcome", out);
  __vp_tag("after"); dump_param(p, false);
  __vp_reached("c09.end");
  return 0;
}
// (b) tree edits
static void dump_tree(const ezc3d::c3d& c, const char* tag) { __vp_tag(tag); dump_params(c); }
extern "C" int h_c09_tree() {
  const int depth = __vp_cfg("depth"), start = __vp_cfg("start");
  ezc3d::c3d* c = start >= 1 ? new ezc3d::c3d("in.c3d") : new ezc3d::c3d();
  for (int k = 0; k < depth; ++k) {
    dump_tree(*c, "before");
    unsigned op = __vp_choice("op", 8);
    __vp_tag("call"); __vp_obs_u64("op", op);
    int out = 0;
    try {
      if (op <= 3) {
        // add/replace a parameter: op 0: FORCE_PLATFORM + symbolic name (may equal an existing name), 1: FORCE_PLATFORM:ZERO (replace, other type),
        // 2: new group, 3: new group twice the same name (second replaces)
        const bool dupfile = start == 2;     // start 2: a loaded file that declares two groups named EXTRA
        std::string nm = op == 0 ? sym_str("pname", __vp_cfg("nlen")) : op == 1 ? std::string(dupfile ? "INTS" : "ZERO") : std::string("Fresh");
        Param p(nm, sym_str("pdesc", 2, 1));
        unsigned kind = op == 0 ? (unsigned)__vp_cfg("kind") : op;
        if (kind % 3 == 0) p.set(std::vector<int>() = {(int)(short)__vp_sym_u16("iv"), (int)(short)__vp_sym_u16("iv")});
        else if (kind % 3 == 1) p.set(std::vector<float>() = {__vp_sym_f32("fv")}, std::vector<size_t>() = {1, 1});
        else p.set(std::vector<std::string>() = {sym_str("sv", 2), sym_str("sv", 1)});
        if (__vp_sym_u8("lock") & 1) p.lock();
        const char* grp = op <= 1 ? (dupfile ? "EXTRA" : "FORCE_PLATFORM") : "NewGroup";
        __vp_obs_bytes("group", grp, strlen(grp));
        __vp_tag("given"); dump_param(p, false);
        c->parameter(grp, p);
        __vp_tag("lookup"); dump_param(c->parameters().group(grp).parameter(nm), false);
      } else if (op == 4) c->lockGroup(start == 2 ? "EXTRA" : "FORCE_PLATFORM");
      else if (op == 5) c->unlockGroup(start == 2 ? "EXTRA" : "FORCE_PLATFORM");
      else if (op == 6) c->lockGroup("ANALOG");
      else if (op == 7) {   // a parameter that lives in this very object is handed over for a NEW group (the tree grows while the argument is read)
        std::string g("Copy"); g.push_back(char('0' + c->parameters().nbGroups() % 10));
        __vp_obs_bytes("group", g.data(), g.size());
        const Param& own = c->parameters().group(0).parameter(0);
        __vp_tag("given"); dump_param(own, false);
        c->parameter(g, own);
        __vp_tag("lookup"); dump_param(c->parameters().group(g).parameter(own.name()), false);
      }
    } catch (...) { out = classify(); }
    __vp_tag("outcome"); __vp_obs_u64("outcome", out);
    dump_tree(*c, "after");
  }
  delete c;
  __vp_reached("c09.end");
  return 0;
}
