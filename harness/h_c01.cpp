// C01: build through the public API -> write -> load -> dump.  Shape and construction order are concrete
// configuration (bounds); every float, integer value, name/description character and lock flag is symbolic.
// cfg keys: P,C,S,F shape; order 0..2 construction order; ex_* the extra parameter; symnames; norate.
#include "vp_build.h"
extern "C" int h_c01() {
  ezc3d::c3d c; Built B;
  build_object(c, B);
  dump_all(c, "pre", false);
  c.write("out.c3d");
  ezc3d::c3d d("out.c3d");
  dump_all(d, "post", false);
  emit_inputs(B);
  __vp_reached("c01.end");
  return 0;
}
// C03/C14: build -> dump -> write; the saved bytes are observed
extern "C" int h_save() {
  ezc3d::c3d c; Built B;
  build_object(c, B);
  // alignment filler: parameters whose descriptions have concrete lengths summing to cfg pad (steers the
  // parameter-section length through all residues modulo the 512-byte block size)
  int pad = __vp_cfg("pad");
  for (int k = 0; pad >= 0 && k < 3; ++k) {
    int len = pad > 255 ? 255 : pad;
    std::string nm("PAD"); nm.push_back(char('A' + k));
    Param p(nm, std::string(len, 'd')); p.set(std::vector<int>() = {k});
    c.parameter("PADG", p);
    pad -= len; if (pad == 0) pad = -1;
  }
  dump_all(c, "pre", true);
  c.write("out.c3d");
  dump_all(c, "pre2", true);
  __vp_tag("files"); __vp_obs_file("out.c3d");
  emit_inputs(B);
  __vp_reached("save.end");
  return 0;
}
// C14: saving is pure, repeatable and writes only defined bytes.  source 0: API-built object (and a second,
// independently built equal object), source 1: object loaded from "in.c3d".
extern "C" void __vp_sym_reset() noexcept;
extern "C" int h_c14() {
  const int source = __vp_cfg("source");
  if (source == 0) {
    ezc3d::c3d c; Built B; build_object(c, B);
    dump_all(c, "pre", true);
    c.write("a.c3d");
    dump_all(c, "mid", true);
    c.write("b.c3d");
    dump_all(c, "post", true);
    __vp_sym_reset();                       // the same symbolic inputs again: an equal object built independently
    ezc3d::c3d c2; Built B2; build_object(c2, B2);
    c2.write("c.c3d");
    __vp_tag("files"); __vp_obs_file("a.c3d"); __vp_obs_file("b.c3d"); __vp_obs_file("c.c3d");
  } else {
    ezc3d::c3d c("in.c3d");
    dump_all(c, "pre", true);
    c.write("a.c3d");
    dump_all(c, "mid", true);
    c.write("b.c3d");
    dump_all(c, "post", true);
    ezc3d::c3d c2("in.c3d");
    c2.write("c.c3d");
    __vp_tag("files"); __vp_obs_file("a.c3d"); __vp_obs_file("b.c3d"); __vp_obs_file("c.c3d");
  }
  __vp_reached("c14.end");
  return 0;
}
// C15: a save that did not reach the disk is reported
extern "C" int h_c15() {
  const int source = __vp_cfg("source");
  ezc3d::c3d* c;
  if (source == 0) { c = new ezc3d::c3d(); Built B; build_object(*c, B); } else c = new ezc3d::c3d("in.c3d");
  __vp_tag("save");
  int out = 0;
  try { c->write("out.c3d"); }
  catch (std::ios_base::failure&) { out = 1; }
  catch (std::exception&) { out = 9; }
  __vp_obs_u64("outcome", out);
  delete c;
  __vp_reached("c15.end");
  return 0;
}
