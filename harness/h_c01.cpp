// C01: build through the public API -> write -> load -> dump.  Shape and construction order are concrete
// configuration (bounds); every float, integer value, name/description character and lock flag is symbolic.
// cfg keys: P,C,S,F shape; order 0..2 construction order; ex_* the extra parameter; symnames; norate.
#include "vp_build.h"
extern "C" int h_c01() {
  ezc3d::c3d c; Built B;
  build_object(c, B);
  dump_all(c, "pre", false);
  c.write("out.c3d");
  ezc3d::c3d d("out.c3d");
  dump_all(d, "post", false);
  emit_inputs(B);
  __vp_reached("c01.end");
  return 0;
}
// C03/C14: build -> dump -> write; the saved bytes are observed
extern "C" int h_save() {
  ezc3d::c3d c; Built B;
  build_object(c, B);
  // alignment filler: parameters whose descriptions have concrete lengths summing to cfg pad (steers the
  // parameter-section length through all residues modulo the 512-byte block size)
  int pad = __vp_cfg("pad");
  for (int k = 0; pad >= 0 && k < 3; ++k) {
    int len = pad > 255 ? 255 : pad;
    std::string nm("PAD"); nm.push_back(char('A' + k));
    Param p(nm, std::string(len, 'd')); p.set(std::vector<int>() = {k});
    c.parameter("PADG", p);
    pad -= len; if (pad == 0) pad = -1;
  }
  dump_all(c, "pre", true);
  c.write("out.c3d");
  dump_all(c, "pre2", true);
  __vp_tag("files"); __vp_obs_file("out.c3d");
  emit_inputs(B);
  __vp_reached("save.end");
  return 0;
}
