// C01: build through the public API -> write -> load -> dump.  Shape and construction order are concrete
// configuration (bounds); every float, integer value, name/description character and lock flag is symbolic.
// cfg keys: P,C,S,F shape; order 0..2 construction order; ex_* the extra parameter; symnames; norate.
#include "vp_build.h"
extern "C" int h_c01() {
  ezc3d::c3d c; Built B;
  build_object(c, B);
  dump_all(c, "pre", false);
  c.write("out.c3d");
  ezc3d::c3d d("out.c3d");
  dump_all(d, "post", false);
  emit_inputs(B);
  __vp_reached("c01.end");
  return 0;
}
// C03/C14: build -> dump -> write; the saved bytes are observed
extern "C" int h_save() {
  ezc3d::c3d c; Built B;
  build_object(c, B);
  dump_all(c, "pre", true);
  c.write("out.c3d");
  dump_all(c, "pre2", true);
  __vp_tag("files"); __vp_obs_file("out.c3d");
  emit_inputs(B);
  __vp_reached("save.end");
  return 0;
}
// C14: saving is pure, repeatable and writes only defined bytes.  source 0: API-built object (and a second,
// independently built equal object), source 1: object loaded from "in.c3d".
extern "C" void __vp_sym_reset() noexcept;
static void save_bigger_object(const char* path) {
  ezc3d::c3d other;
  set_rate(other, "POINT", 50.f); set_rate(other, "ANALOG", 200.f);
  for (int i = 0; i < 5; ++i) { std::string n("big"); n.push_back(char('0' + i)); other.point(n); }
  for (int i = 0; i < 4; ++i) { std::string n("chan"); n.push_back(char('0' + i)); other.analog(n); }
  for (int f = 0; f < 4; ++f) {
    Frame fr; Points pts; Analogs ana;
    for (int i = 0; i < 5; ++i) { Point p; std::string n("big"); n.push_back(char('0' + i)); p.name(n); p.x(7000.f + i); p.y(7100.f + f); p.z(-7200.f); p.residual(7.f); pts.point(p); }
    for (int s2 = 0; s2 < 4; ++s2) { SubFrame sf; for (int i = 0; i < 4; ++i) { Channel ch; std::string n("chan"); n.push_back(char('0' + i)); ch.name(n); ch.data(7300.f + i + s2); sf.channel(ch); } ana.subframe(sf); }
    fr.add(pts, ana); other.frame(fr);
  }
  Param q("OTHER", "something else, and rather long at that"); q.set(std::vector<std::string>() = {"abcdefghijklmnop", "d"}); other.parameter("ELSE", q);
  other.write(path);
}
extern "C" int h_c14() {
  const int source = __vp_cfg("source");
  if (source == 0) {
    ezc3d::c3d c; Built B; build_object(c, B);
    dump_all(c, "pre", true);
    c.write("a.c3d");
    dump_all(c, "mid", true);
    save_bigger_object("b.c3d");       // a different, bigger object is saved in between, at the path the second save then overwrites
    c.write("b.c3d");
    dump_all(c, "post", true);
    __vp_sym_reset();                       // the same symbolic inputs again: an equal object built independently
    ezc3d::c3d c2; Built B2; build_object(c2, B2);
    c2.write("c.c3d");
    __vp_tag("files"); __vp_obs_file("a.c3d"); __vp_obs_file("b.c3d"); __vp_obs_file("c.c3d");
  } else {
    ezc3d::c3d c("in.c3d");
    dump_all(c, "pre", true);
    c.write("a.c3d");
    dump_all(c, "mid", true);
    save_bigger_object("b.c3d");       // a different, bigger object is saved in between, at the path the second save then overwrites
    c.write("b.c3d");
    dump_all(c, "post", true);
    ezc3d::c3d c2("in.c3d");
    c2.write("c.c3d");
    __vp_tag("files"); __vp_obs_file("a.c3d"); __vp_obs_file("b.c3d"); __vp_obs_file("c.c3d");
  }
  __vp_reached("c14.end");
  return 0;
}
// C19: float -> unsigned 64-bit conversions of values the caller controls.  x86-64 has no such instruction before AVX-512; g++ and clang++
// emit different sequences that disagree on operands >= 2^64.  Both rates are free floats; the engine records every such conversion site
// together with the condition "operand >= 2^64", z3 decides whether it can hold, the counterexample is replayed on a g++ and a clang++ build.
extern "C" int h_c19_rates() {
  ezc3d::c3d c;
  float r = __vp_sym_f32("prate"), a = __vp_sym_f32("arate");
  int out = 0;
  try { set_rate(c, "POINT", r); set_rate(c, "ANALOG", a); } catch (std::exception&) { out = 1; }
  __vp_tag("rates"); __vp_obs_u64("outcome", out);
  __vp_obs_f32("hdr.frameRate", c.header().frameRate()); __vp_obs_u64("hdr.nbAnalogByFrame", c.header().nbAnalogByFrame());
  __vp_obs_u64("hdr.nbAnalogsMeasurement", c.header().nbAnalogsMeasurement()); __vp_obs_u64("hdr.nbFrames", c.header().nbFrames());
  __vp_reached("c19r.end");
  return 0;
}
// C19 cross-level kernel: POINT:RATE set twice to free finite rates (the header follows the parameter through a float -> int comparison)
extern "C" int h_c19_rates2() {
  ezc3d::c3d c;
  float r1 = __vp_sym_f32("prate1"), r2 = __vp_sym_f32("prate2");
  __vp_assume(r1 >= 1.f && r1 <= 1000000.f); __vp_assume(r2 >= 1.f && r2 <= 1000000.f);
  set_rate(c, "POINT", r1);
  __vp_tag("rates"); __vp_obs_f32("hdr.frameRate", c.header().frameRate());
  set_rate(c, "POINT", r2);
  __vp_obs_f32("hdr.frameRate", c.header().frameRate()); __vp_obs_f32("POINT:RATE", c.parameters().group("POINT").parameter("RATE").valuesAsFloat()[0]);
  __vp_reached("c19r2.end");
  return 0;
}
// C15: a save that did not reach the disk is reported
extern "C" int h_c15() {
  const int source = __vp_cfg("source");
  ezc3d::c3d* c;
  if (source == 0) { c = new ezc3d::c3d(); Built B; build_object(*c, B); } else c = new ezc3d::c3d("in.c3d");
  __vp_tag("save");
  int out = 0;
  try { c->write("out.c3d"); }
  catch (std::ios_base::failure&) { out = 1; }
  catch (std::exception&) { out = 9; }
  __vp_obs_u64("outcome", out);
  delete c;
  __vp_reached("c15.end");
  return 0;
}
// C17: content at / beyond the capacity limits of the format.
extern "C" int h_c17() {
  const int kind = __vp_cfg("kind"), v = __vp_cfg("value");
  ezc3d::c3d c;
  std::vector<float> in; std::vector<std::string> pn, an; int P = 0, C = 0, F = 0;
  if (kind == 0) {            // description of v characters (parameter)
    Param p("LONGDESC", std::string(v, 'd')); p.set(std::vector<int>() = {(int)(short)__vp_sym_u16("iv")}); c.parameter("LIMITS", p);
  } else if (kind == 1) {     // parameter name of v characters
    Param p(std::string(v, 'N'), "n"); p.set(std::vector<float>() = {__vp_sym_f32("fv")}); c.parameter("LIMITS", p);
  } else if (kind == 2) {     // group name of v characters
    Param p("X", "g"); p.set(std::vector<int>() = {1}); c.parameter(std::string(v, 'G'), p);
  } else if (kind == 3) {     // one dimension of extent v (ints)
    std::vector<int> d; for (int i = 0; i < v; ++i) d.push_back((int)(short)__vp_sym_u16("iv"));
    Param p("WIDE", "w"); p.set(d); c.parameter("LIMITS", p);
  } else if (kind == 4) {     // string of v characters (first dimension = length)
    Param p("LONGSTR", "s"); p.set(std::vector<std::string>() = {std::string(v, 's'), std::string("t")}); c.parameter("LIMITS", p);
  } else if (kind == 5) {     // integer value v (16-bit storage)
    Param p("INTVAL", "i"); p.set(std::vector<int>() = {v, -v}); c.parameter("LIMITS", p);
  } else if (kind == 6) {     // v dimensions (each of extent 1)
    std::vector<size_t> dims(v, 1); Param p("MANYDIMS", "m"); p.set(std::vector<float>() = {__vp_sym_f32("fv")}, dims); c.parameter("LIMITS", p);
  } else if (kind == 7 || kind == 8) {   // v points / v channels, one frame
    set_rate(c, "POINT", 100.f); if (kind == 8) set_rate(c, "ANALOG", 100.f);
    if (kind == 7) P = v; else C = v;
    for (int i = 0; i < P; ++i) { std::string n("p"); n += char('a' + i / 26 % 26); n += char('a' + i % 26); n += char('0' + i / 676); pn.push_back(n); c.point(n); }
    for (int i = 0; i < C; ++i) { std::string n("c"); n += char('a' + i / 26 % 26); n += char('a' + i % 26); n += char('0' + i / 676); an.push_back(n); c.analog(n); }
    F = 1;
    Frame fr; Points pts; Analogs ana;
    for (int i = 0; i < P; ++i) { Point pt; pt.name(pn[i]); float x = __vp_sym_f32("x"); pt.x(x); pt.y(0); pt.z(0); pt.residual(0); pts.point(pt); in.push_back(x); in.push_back(0); in.push_back(0); in.push_back(0); }
    if (C) { SubFrame sf; for (int i = 0; i < C; ++i) { Channel ch; ch.name(an[i]); float a = __vp_sym_f32("a"); ch.data(a); sf.channel(ch); in.push_back(a); } ana.subframe(sf); }
    fr.add(pts, ana); c.frame(fr);
  } else if (kind == 9) {     // many parameters: v groups of one 200-byte description each (parameter section of many blocks)
    for (int i = 0; i < v; ++i) {       // 5 parameters per group: the number of groups stays below its own limit (127)
      int gi = i / 5; std::string g("G"); g += char('A' + gi / 26 % 26); g += char('A' + gi % 26);
      std::string pn("P"); pn += char('0' + i % 5);
      Param p(pn, std::string(250, 'x')); p.set(std::vector<int>() = {i}); c.parameter(g, p);
    }
    // one point in one frame: the data section must still be found behind that many blocks
    set_rate(c, "POINT", 100.f); pn.push_back("pa"); c.point("pa"); P = 1; F = 1;
    { Frame fr; Points pts; Point pt; pt.name("pa"); float x = __vp_sym_f32("x"); pt.x(x); pt.y(2.5f); pt.z(-3.5f); pt.residual(0.5f); pts.point(pt); fr.add(pts); c.frame(fr);
      in.push_back(x); in.push_back(2.5f); in.push_back(-3.5f); in.push_back(0.5f); }
  } else if (kind == 10) {    // v groups in total (a fresh object has 3): group ids are signed bytes, a group record carries -id and its parameters +id
    for (int i = 3; i < v; ++i) {
      std::string g("G"); g += char('A' + i / 26 % 26); g += char('A' + i % 26);
      Param p("V", "g"); p.set(std::vector<int>() = {(int)(short)__vp_sym_u16("iv")}); c.parameter(g, p);
    }
  }
  dump_all(c, "pre", false);
  int wrote = 0, loaded = 0;
  try { c.write("out.c3d"); wrote = 1; } catch (std::exception&) { wrote = 0; } 
  __vp_tag("outcome"); __vp_obs_u64("wrote", wrote);
  if (wrote && __vp_cfg("obsfile")) { __vp_tag("files"); __vp_obs_file("out.c3d"); __vp_tag("outcome1"); }
  if (wrote) {
    try { ezc3d::c3d d("out.c3d"); loaded = 1; __vp_obs_u64("loaded", 1); dump_all(d, "post", false); }
    catch (std::exception&) { __vp_tag("outcome2"); __vp_obs_u64("loaded", 0); }
  }
  Built B; B.pn = pn; B.an = an; B.in = in; B.P = P; B.C = C; B.S = 1; B.F = F;
  emit_inputs(B);
  __vp_reached("c17.end");
  return 0;
}
