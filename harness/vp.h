// Common harness support: engine intrinsics, canonical observation dump, small builders.
// Harnesses use ONLY the public ezc3d API.  Compiled twice: to LLVM IR for irsym (intrinsics are
// engine stubs) and natively with -DVP_NATIVE for replay (intrinsics in vp_native.cpp).
#ifndef VP_H
#define VP_H
#include "ezc3d.h"
extern "C" {
  unsigned char  __vp_sym_u8(const char*) noexcept;
  unsigned short __vp_sym_u16(const char*) noexcept;
  unsigned int   __vp_sym_u32(const char*) noexcept;
  unsigned long  __vp_sym_u64(const char*) noexcept;
  float          __vp_sym_f32(const char*) noexcept;
  long           __vp_cfg(const char*) noexcept;            // concrete configuration value (bound)
  void           __vp_assume(bool) noexcept;
  unsigned       __vp_choice(const char*, unsigned n) noexcept;
  void           __vp_tag(const char*) noexcept;
  void           __vp_obs_u64(const char*, unsigned long) noexcept;
  void           __vp_obs_f32(const char*, float) noexcept;
  void           __vp_obs_bytes(const char*, const char*, unsigned long) noexcept;
  void           __vp_obs_file(const char*) noexcept;
  void           __vp_reached(const char*) noexcept;
  void           __vp_program(int) noexcept;
}

namespace vp {
typedef ezc3d::ParametersNS::GroupNS::Parameter Param;
typedef ezc3d::ParametersNS::GroupNS::Group Group;
typedef ezc3d::DataNS::Frame Frame;
typedef ezc3d::DataNS::Points3dNS::Points Points;
typedef ezc3d::DataNS::Points3dNS::Point Point;
typedef ezc3d::DataNS::AnalogsNS::Analogs Analogs;
typedef ezc3d::DataNS::AnalogsNS::SubFrame SubFrame;
typedef ezc3d::DataNS::AnalogsNS::Channel Channel;

inline void obs_str(const char* l, const std::string& s) { __vp_obs_bytes(l, s.data(), s.size()); }

// symbolic string of n characters; kind 0: printable non-space (33..126), 1: printable incl. space (32..126), 2: any non-NUL
inline std::string sym_str(const char* tag, unsigned n, int kind = 0) {
  std::string s;
  for (unsigned i = 0; i < n; ++i) {
    unsigned char c = __vp_sym_u8(tag);
    if (kind == 0) __vp_assume(c > 32 && c < 127);
    else if (kind == 1) __vp_assume(c >= 32 && c < 127);
    else __vp_assume(c != 0);
    s.push_back(static_cast<char>(c));
  }
  return s;
}

inline void dump_header(const ezc3d::c3d& c, bool full) {
  const ezc3d::Header& h = c.header();
  __vp_obs_u64("hdr.nb3dPoints", h.nb3dPoints());
  __vp_obs_u64("hdr.nbAnalogs", h.nbAnalogs());
  __vp_obs_u64("hdr.nbAnalogsMeasurement", h.nbAnalogsMeasurement());
  __vp_obs_u64("hdr.nbAnalogByFrame", h.nbAnalogByFrame());
  __vp_obs_u64("hdr.firstFrame", h.firstFrame());
  __vp_obs_u64("hdr.lastFrame", h.lastFrame());
  __vp_obs_u64("hdr.nbFrames", h.nbFrames());
  __vp_obs_f32("hdr.frameRate", h.frameRate());
  if (full) {
    __vp_obs_u64("hdr.nbMaxInterpGap", h.nbMaxInterpGap());
    __vp_obs_u64("hdr.scaleFactor", (unsigned long)(long)h.scaleFactor());
    __vp_obs_u64("hdr.dataStart", h.dataStart());
    __vp_obs_u64("hdr.keyLabelPresent", h.keyLabelPresent());
    __vp_obs_u64("hdr.firstBlockKeyLabel", h.firstBlockKeyLabel());
    __vp_obs_u64("hdr.fourCharPresent", h.fourCharPresent());
    __vp_obs_u64("hdr.nbEvents", h.nbEvents());
    for (size_t i = 0; i < h.eventsTime().size(); ++i) __vp_obs_f32("hdr.eventsTime", h.eventsTime(i));
    for (size_t i = 0; i < h.eventsDisplay().size(); ++i) __vp_obs_u64("hdr.eventsDisplay", h.eventsDisplay(i));
    for (size_t i = 0; i < h.eventsLabel().size(); ++i) obs_str("hdr.eventsLabel", h.eventsLabel(i));
  }
}

inline void dump_param(const Param& p, bool isDataStart) {
  obs_str("prm.name", p.name()); obs_str("prm.desc", p.description());
  __vp_obs_u64("prm.locked", p.isLocked()); __vp_obs_u64("prm.type", (unsigned long)(long)p.type());
  std::vector<size_t> d = p.dimension(); __vp_obs_u64("prm.ndim", d.size());
  for (size_t i = 0; i < d.size(); ++i) __vp_obs_u64("prm.dim", d[i]);
  if (p.type() == ezc3d::DATA_TYPE::INT) { __vp_obs_u64("prm.n", p.valuesAsInt().size()); for (size_t i = 0; i < p.valuesAsInt().size(); ++i) __vp_obs_u64(isDataStart ? "prm.datastart" : "prm.i", (unsigned long)(long)p.valuesAsInt()[i]); }
  if (p.type() == ezc3d::DATA_TYPE::BYTE) { __vp_obs_u64("prm.n", p.valuesAsByte().size()); for (size_t i = 0; i < p.valuesAsByte().size(); ++i) __vp_obs_u64("prm.b", (unsigned long)(long)p.valuesAsByte()[i]); }
  if (p.type() == ezc3d::DATA_TYPE::FLOAT) { __vp_obs_u64("prm.n", p.valuesAsFloat().size()); for (size_t i = 0; i < p.valuesAsFloat().size(); ++i) __vp_obs_f32("prm.f", p.valuesAsFloat()[i]); }
  if (p.type() == ezc3d::DATA_TYPE::CHAR) { __vp_obs_u64("prm.n", p.valuesAsString().size()); for (size_t i = 0; i < p.valuesAsString().size(); ++i) obs_str("prm.s", p.valuesAsString()[i]); }
}

inline void dump_params(const ezc3d::c3d& c) {
  const ezc3d::ParametersNS::Parameters& P = c.parameters();
  __vp_obs_u64("par.nbGroups", P.nbGroups());
  for (size_t g = 0; g < P.nbGroups(); ++g) {
    const Group& G = P.group(g);
    obs_str("grp.name", G.name()); obs_str("grp.desc", G.description()); __vp_obs_u64("grp.locked", G.isLocked());
    __vp_obs_u64("grp.nbParameters", G.nbParameters());
    bool isPoint = G.name() == "POINT";
    for (size_t k = 0; k < G.nbParameters(); ++k)
      dump_param(G.parameter(k), isPoint && G.parameter(k).name() == "DATA_START");
  }
}

inline void dump_frame(const Frame& fr, bool names) {
  __vp_obs_u64("frm.nbPoints", fr.points().nbPoints());
  for (size_t p = 0; p < fr.points().nbPoints(); ++p) {
    const Point& pt = fr.points().point(p);
    if (names) obs_str("pt.name", pt.name());
    __vp_obs_f32("pt.x", pt.x()); __vp_obs_f32("pt.y", pt.y()); __vp_obs_f32("pt.z", pt.z()); __vp_obs_f32("pt.residual", pt.residual());
  }
  __vp_obs_u64("frm.nbSubframes", fr.analogs().nbSubframes());
  for (size_t s = 0; s < fr.analogs().nbSubframes(); ++s) {
    __vp_obs_u64("sub.nbChannels", fr.analogs().subframe(s).nbChannels());
    for (size_t ch = 0; ch < fr.analogs().subframe(s).nbChannels(); ++ch) {
      if (names) obs_str("ch.name", fr.analogs().subframe(s).channel(ch).name());
      __vp_obs_f32("ch.data", fr.analogs().subframe(s).channel(ch).data());
    }
  }
}

inline void dump_data(const ezc3d::c3d& c, bool names = true) {
  __vp_obs_u64("dat.nbFrames", c.data().nbFrames());
  for (size_t f = 0; f < c.data().nbFrames(); ++f) dump_frame(c.data().frame(f), names);
}

inline void dump_all(const ezc3d::c3d& c, const char* tag, bool fullHeader = true) {
  __vp_tag(tag);
  dump_header(c, fullHeader);
  dump_params(c);
  dump_data(c);
}

inline void set_rate(ezc3d::c3d& c, const char* grp, float r) { Param p("RATE"); p.set(std::vector<float>() = {r}); c.parameter(grp, p); }
}
#endif
