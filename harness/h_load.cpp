// Loads "in.c3d" and dumps the object (C02, C12, C16, C17); optionally saves and reloads (C04).
#include "vp.h"
using namespace vp;
static int exc_class(int step) {
  // rethrow-classify the current exception; the order is most-derived first
  try { throw; }
  catch (std::ios_base::failure&) { __vp_obs_u64("exc.class", 1); }
  catch (std::invalid_argument&) { __vp_obs_u64("exc.class", 2); }
  catch (std::out_of_range&) { __vp_obs_u64("exc.class", 3); }
  catch (std::length_error&) { __vp_obs_u64("exc.class", 4); }
  catch (std::range_error&) { __vp_obs_u64("exc.class", 5); }
  catch (std::runtime_error&) { __vp_obs_u64("exc.class", 6); }
  catch (std::logic_error&) { __vp_obs_u64("exc.class", 7); }
  catch (std::bad_alloc&) { __vp_obs_u64("exc.class", 8); }
  catch (std::exception&) { __vp_obs_u64("exc.class", 9); }
  __vp_obs_u64("exc.step", step);
  return 1;
}
extern "C" int h_load() {
  const int gens = __vp_cfg("gens");     // 0: load only; 1: load, save, load; 2: ... and save again (fixpoint)
  const int dump = __vp_cfg("dump");     // 1: dump the loaded object(s)
  try {
    ezc3d::c3d d("in.c3d");
    __vp_reached("loaded");
    if (dump) dump_all(d, "gen1", true);
    if (gens >= 1) {
      d.write("gen2.c3d");
      if (__vp_cfg("obsfiles")) { __vp_tag("files1"); __vp_obs_file("gen2.c3d"); }
      ezc3d::c3d e("gen2.c3d");
      if (dump) dump_all(e, "gen2", true);
      if (gens >= 2) {
        e.write("gen3.c3d");
        __vp_tag("files");
        __vp_obs_file("gen2.c3d"); __vp_obs_file("gen3.c3d");
      }
    }
  } catch (...) { __vp_tag("exc"); exc_class(0); __vp_reached("refused"); return 1; }
  __vp_reached("end");
  return 0;
}

// C03: load "in.c3d", dump it, save it unchanged and hand the saved bytes to the reference decoder (no reload: whether the
// library itself can read the file back is C04's question, not C03's)
extern "C" int h_resave() {
  ezc3d::c3d d("in.c3d");
  dump_all(d, "gen1", true);
  d.write("gen2.c3d");
  __vp_tag("files1"); __vp_obs_file("gen2.c3d");
  __vp_reached("end");
  return 0;
}

// C13: an object the loader accepted must be printable and destructible whatever its header declares (event count free)
extern "C" int h_load_print() {
  try {
    ezc3d::c3d d("in.c3d");
    __vp_reached("loaded");
    d.print();
    d.header().print();
    d.parameters().print();
  } catch (std::exception&) { __vp_reached("refused"); return 1; }
  __vp_reached("end");
  return 0;
}
