// C11: look-ups by position and by name return the right element or throw the documented error.
#include "vp.h"
using namespace vp;
static int classify() {
  try { throw; }
  catch (std::ios_base::failure&) { return 1; } catch (std::invalid_argument&) { return 2; } catch (std::out_of_range&) { return 3; }
  catch (std::length_error&) { return 4; } catch (std::range_error&) { return 5; } catch (std::runtime_error&) { return 6; }
  catch (std::logic_error&) { return 7; } catch (std::bad_alloc&) { return 8; } catch (std::exception&) { return 9; }
}
static void out_ok(float v) { __vp_tag("result"); __vp_obs_u64("outcome", 0); __vp_obs_f32("payload", v); }
static void out_ok_s(const std::string& v) { __vp_tag("result"); __vp_obs_u64("outcome", 0); obs_str("payload", v); }
static void out_exc() { int c = classify(); __vp_tag("result"); __vp_obs_u64("outcome", c); }

// by position: container of n elements whose payloads are symbolic, index a free 64-bit value
extern "C" int h_c11_pos() {
  const int kind = __vp_cfg("kind"), n = __vp_cfg("n"), nonconst = __vp_cfg("nonconst");
  unsigned long idx = __vp_sym_u64("idx");
  __vp_tag("in");
  try {
    if (kind == 0) {            // frames
      ezc3d::DataNS::Data d;
      for (int i = 0; i < n; ++i) { Frame f; Points p; Point q; float v = __vp_sym_f32("v"); __vp_obs_f32("in", v); q.x(v); p.point(q); f.add(p); d.frame(f); }
      __vp_obs_u64("idx", idx);
      out_ok(nonconst ? d.frame_nonConst(idx).points().point(0).x() : d.frame(idx).points().point(0).x());
    } else if (kind == 1) {     // points
      Points p; for (int i = 0; i < n; ++i) { Point q; float v = __vp_sym_f32("v"); __vp_obs_f32("in", v); q.x(v); p.point(q); }
      __vp_obs_u64("idx", idx);
      out_ok(nonconst ? p.point_nonConst(idx).x() : p.point(idx).x());
    } else if (kind == 2) {     // sub-frames
      Analogs a; for (int i = 0; i < n; ++i) { SubFrame s; Channel c; float v = __vp_sym_f32("v"); __vp_obs_f32("in", v); c.data(v); s.channel(c); a.subframe(s); }
      __vp_obs_u64("idx", idx);
      const Analogs& ca = a; out_ok(nonconst ? a.subframe_nonConst(idx).channel(0).data() : ca.subframe(idx).channel(0).data());
    } else if (kind == 3) {     // channels
      SubFrame s; for (int i = 0; i < n; ++i) { Channel c; float v = __vp_sym_f32("v"); __vp_obs_f32("in", v); c.data(v); s.channel(c); }
      __vp_obs_u64("idx", idx);
      out_ok(nonconst ? s.channel_nonConst(idx).data() : s.channel(idx).data());
    } else if (kind == 4) {     // groups
      ezc3d::c3d c;     // 3 mandatory groups; add n more, each holding one float parameter
      for (int i = 0; i < 3; ++i) __vp_obs_f32("in", 0.f);
      for (int i = 0; i < n; ++i) { Param p("V"); float v = __vp_sym_f32("v"); __vp_obs_f32("in", v); p.set(std::vector<float>() = {v}); std::string g("G"); g.push_back(char('0' + i)); c.parameter(g, p); }
      __vp_obs_u64("idx", idx);
      const Group& g = c.parameters().group(idx);
      __vp_tag("result"); __vp_obs_u64("outcome", 0); __vp_obs_u64("position", idx);
      if (idx >= 3) __vp_obs_f32("payload", g.parameter(0).valuesAsFloat()[0]);
    } else if (kind == 5) {     // parameters
      Group g("G"); for (int i = 0; i < n; ++i) { std::string nm("P"); nm.push_back(char('0' + i)); Param p(nm); float v = __vp_sym_f32("v"); __vp_obs_f32("in", v); p.set(std::vector<float>() = {v}); g.parameter(p); }
      __vp_obs_u64("idx", idx);
      out_ok(nonconst ? g.parameter_nonConst(idx).valuesAsFloat()[0] : g.parameter(idx).valuesAsFloat()[0]);
    } else if (kind >= 6) {     // header events (fixed sizes 18 / 9 / 18) of a loaded file with symbolic event fields
      ezc3d::c3d c("in.c3d");
      __vp_obs_u64("idx", idx);
      if (kind == 6) out_ok(c.header().eventsTime(idx));
      else if (kind == 7) { size_t v = c.header().eventsDisplay(idx); __vp_tag("result"); __vp_obs_u64("outcome", 0); __vp_obs_u64("payload", v); }
      else out_ok_s(c.header().eventsLabel(idx));
    }
  } catch (...) { out_exc(); }
  __vp_reached("c11.end");
  return 0;
}

// by name: stored names and the looked-up name are symbolic
extern "C" int h_c11_name() {
  const int kind = __vp_cfg("kind"), n = __vp_cfg("n"), len = __vp_cfg("len"), qlen = __vp_cfg("qlen");
  std::vector<std::string> names;
  __vp_tag("in");
  for (int i = 0; i < n; ++i) { std::string s = sym_str("nm", len, 0); names.push_back(s); obs_str("name", s); }
  std::string q = sym_str("q", qlen, 0);
  obs_str("query", q);
  // groups and parameters are added under distinct names and then renamed through the public name() setter, which makes
  // duplicates possible ("the first element with exactly that name")
  try {
    if (kind == 0) {            // points
      Points p; for (int i = 0; i < n; ++i) { Point pt; pt.name(names[i]); float v = __vp_sym_f32("v"); __vp_obs_f32("in", v); pt.x(v); p.point(pt); }
      size_t k = p.pointIdx(q);
      __vp_tag("result"); __vp_obs_u64("outcome", 0); __vp_obs_u64("position", k); const Points& cp = p; __vp_obs_f32("payload", cp.point(q).x()); __vp_obs_f32("payload.pos", cp.point(k).x());
      __vp_obs_f32("payload.nc", p.point_nonConst(q).x());
    } else if (kind == 1) {     // channels
      SubFrame s; for (int i = 0; i < n; ++i) { Channel c; c.name(names[i]); float v = __vp_sym_f32("v"); __vp_obs_f32("in", v); c.data(v); s.channel(c); }
      size_t k = s.channelIdx(q);
      __vp_tag("result"); __vp_obs_u64("outcome", 0); __vp_obs_u64("position", k); const SubFrame& cs = s; __vp_obs_f32("payload", cs.channel(q).data()); __vp_obs_f32("payload.pos", cs.channel(k).data());
      __vp_obs_f32("payload.nc", s.channel_nonConst(q).data());
    } else if (kind == 2) {     // parameters in a group
      Group g("G"); for (int i = 0; i < n; ++i) { std::string tmp("~tmp"); tmp.push_back(char('0' + i)); Param p(tmp); float v = __vp_sym_f32("v"); __vp_obs_f32("in", v); p.set(std::vector<float>() = {v}); g.parameter(p); }
      for (int i = 0; i < n; ++i) g.parameter_nonConst(i).name(names[i]);
      __vp_obs_u64("stored", g.nbParameters());
      size_t k = g.parameterIdx(q);
      __vp_tag("result"); __vp_obs_u64("outcome", 0); __vp_obs_u64("position", k); const Group& cg = g; __vp_obs_f32("payload", cg.parameter(q).valuesAsFloat()[0]); __vp_obs_f32("payload.pos", cg.parameter(k).valuesAsFloat()[0]);
      __vp_obs_f32("payload.nc", g.parameter_nonConst(q).valuesAsFloat()[0]);
    } else if (kind == 3) {     // groups
      ezc3d::ParametersNS::Parameters P;   // holds POINT, ANALOG, FORCE_PLATFORM
      for (int i = 0; i < n; ++i) { std::string tmp("~tmp"); tmp.push_back(char('0' + i)); Group g(tmp); Param p("V"); float v = __vp_sym_f32("v"); __vp_obs_f32("in", v); p.set(std::vector<float>() = {v}); g.parameter(p); P.group(g); }
      for (int i = 0; i < n; ++i) P.group_nonConst(3 + i).name(names[i]);
      __vp_obs_u64("stored", P.nbGroups());
      size_t k = P.groupIdx(q);
      __vp_tag("result"); __vp_obs_u64("outcome", 0); __vp_obs_u64("position", k);
      const ezc3d::ParametersNS::Parameters& cP = P; if (k >= 3) { __vp_obs_f32("payload", cP.group(q).parameter("V").valuesAsFloat()[0]); __vp_obs_f32("payload.pos", cP.group(k).parameter(0).valuesAsFloat()[0]); __vp_obs_f32("payload.nc", P.group_nonConst(q).parameter(0).valuesAsFloat()[0]); }
    }
  } catch (...) { out_exc(); }
  __vp_reached("c11.end");
  return 0;
}

// typed getters and trailing-space trimming
extern "C" int h_c11_misc() {
  const int what = __vp_cfg("what");
  if (what == 0) {            // valuesAsX against the parameter's own type
    const int t = __vp_cfg("type"), get = __vp_cfg("get");
    Param p("P");
    if (t == 2) p.set(std::vector<int>() = {1, 2}); else if (t == 4) p.set(std::vector<float>() = {1.f}); else if (t == -1) p.set(std::vector<std::string>() = {"s"});
    // t == 1 (BYTE) and t == 0 (unset) cannot be made through setters: BYTE only comes from a file
    if (t == 1) { ezc3d::c3d c("in.c3d"); p = c.parameters().group("EXTRA").parameter("BYTES"); }
    int out = 0; unsigned long n = 0;
    try { if (get == 1) n = p.valuesAsByte().size(); else if (get == 2) n = p.valuesAsInt().size(); else if (get == 4) n = p.valuesAsFloat().size(); else n = p.valuesAsString().size(); }
    catch (...) { out = classify(); }
    __vp_tag("result"); __vp_obs_u64("outcome", out); __vp_obs_u64("n", n);
  } else {                    // naming with k trailing spaces through every public way, then look-up by the trimmed name
    const int way = __vp_cfg("way"), k = __vp_cfg("spaces"), isPoint = __vp_cfg("point");
    std::string base = sym_str("b", __vp_cfg("len"), 0), padded = base;
    for (int i = 0; i < k; ++i) padded.push_back(' ');
    __vp_tag("in"); obs_str("base", base);
    int out = 0;
    try {
      if (isPoint) {
        Points P;
        if (way == 0) { Point p(padded); p.x(1.f); P.point(p); } else { Point p; p.name(padded); p.x(1.f); P.point(p); }
        __vp_tag("stored"); obs_str("name", P.point(0).name());
        size_t pos = P.pointIdx(base);
        __vp_tag("result"); __vp_obs_u64("position", pos);
      } else {
        SubFrame S;
        if (way == 0) { Channel c(padded); c.data(1.f); S.channel(c); } else { Channel c; c.name(padded); c.data(1.f); S.channel(c); }
        __vp_tag("stored"); obs_str("name", S.channel(0).name());
        size_t pos = S.channelIdx(base);
        __vp_tag("result"); __vp_obs_u64("position", pos);
      }
    } catch (...) { out = classify(); __vp_tag("result"); }
    __vp_obs_u64("outcome", out);
  }
  __vp_reached("c11.end");
  return 0;
}
