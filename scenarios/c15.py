# C15 A save that did not reach the disk is reported (DESIGN.md section 4, C15)
from .common import *
from . import gen, c01, c02
ID = 'C15'
HARNESSES = ['h_c01.cpp']
LEVEL = 'model_checking'
BUDGET = {'quick': 280, 'thorough': 2400}
BOUNDS = {'quick': 'objects: empty, 2x1x2x2 with an extra parameter (API-built) and one loaded object; fault model with three free variables: F_open (the destination cannot be opened), F_off (32-bit: the device accepts exactly F_off bytes, so the solver ranges over every byte offset of the output at once), F_close (the final flush fails)',
          'thorough': 'all C01 quick shapes and 6 loaded layouts'}
OUTSIDE = 'faults the C++ stream does not surface (lost write-back after a successful close); read faults; partial success of a single write call (a refused write delivers 0 bytes)'
ASSUMPTIONS = ['the iostate contract of std::fstream as modelled in shim/fstream: failed open -> failbit and !is_open(); failed write -> badbit; operations on a non-good stream are no-ops; failed close -> failbit']
RULE = 'one evaluation = one path = one class of fault positions (the solver decides the whole F_off interval of the path at once); non-trivial = the path condition constrains a fault variable'

def jobs(tier, seed):
    out = []
    def J(name, **kw): out.append({'entry': 'h_c15', 'harness': 'h_c01.cpp', 'name': name, 'cfg': dict(c01.base(**kw), source=0)})
    J('empty', P=0, C=0, S=1, F=0)
    J('small', P=1, C=0, S=1, F=1)
    J('2x1x2x2', P=2, C=1, S=2, F=2, ex_type=2, ex_ndim=2, ex_d0=2, ex_d1=2, ex_n=4, ex_nlen=3, ex_dlen=2)
    if tier == 'thorough':
        for j in [x for x in c01.jobs('quick', seed) if x.get('name') != 'hist' and not x['cfg']['symnames'] and not (x['cfg']['ex_group'] == 1 and x['cfg']['ex_nlen'] >= 4)][:27]: J('api', **{k: v for k, v in j['cfg'].items()})
    lo = [j for j in c02.jobs('quick', seed) if j['name'] in (('analog_empty',) if tier == 'quick' else ('analog_empty', 'plain', 'events3', 'sparse_ids', 'no_points', 'labels_fewer'))]
    for j in lo:
        j = dict(j); j['entry'] = 'h_c15'; j['harness'] = 'h_c01.cpp'; j['cfg'] = {'source': 1}; j['variant'] = j['name']; j['name'] = 'loaded'
        out.append(j)
    return out

def run_job(engine, job):
    eng = engine('O1')
    res = new_result()
    files = None; assume = None
    if job['cfg']['source'] == 1:
        S, c, lay, cells = c02.build_file(job, concrete_seed=7); files = {'in.c3d': gen.to_engine_cells(cells)}
    q0 = eng.sc.queries; t0 = eng.sc.time
    paths = api.run_fn(eng, job['entry'], cfg=job['cfg'], files=files, fault=True, wall=260, maxpaths=20000)
    Fo, Foff, Fc = z3.Bool('F_open'), z3.BitVec('F_off', 32), z3.Bool('F_close')
    nofault_seen = False
    for r in paths:
        add_path(res, r)
        if r.kind == 'TIMEOUT': res['inconclusive'].append('%s: %s' % (job['name'], r.info)); continue
        if r.kind != 'return' or 'c15.end' not in r.st.reached:
            res['inconclusive'].append('%s: path ended with %s (see C13)' % (job['name'], describe_end(r))); continue
        st = r.st
        out = dict(api.sections(st.obs)['save'])['outcome']
        res['obligations'] += 1
        if st.faulted:
            what = [e for e in st.events if e[0] == 'fault'][0]
            locus = {'open refused': 'open', 'write refused': 'write', 'write accepted in part': 'write', 'close failed': 'close'}[what[1]]
            if out == 0:
                m = eng.sc.check(st.pc)
                rp = replay_of(eng, st, m, job, files)
                add_violation(res, '%s/%s/fault-not-reported/%s' % (ID, job['name'], locus), 'save returned normally although the %s (%s; e.g. F_open=%s F_off=%s F_close=%s)' % (
                    what[1], 'after %d bytes' % what[3] if len(what) > 3 else what[2], rp['fault']['open'], rp['fault']['off'], rp['fault']['close']), rp, 'fault')
            elif out != 1:
                m = eng.sc.check(st.pc)
                add_violation(res, '%s/%s/wrong-exception-class/%s' % (ID, job['name'], locus), 'a failed save threw something that is not std::ios_base::failure', replay_of(eng, st, m, job, files), 'fault')
            else: res['discharged'] += 1
        else:
            nofault_seen = True
            if out != 0:
                m = eng.sc.check(st.pc)
                add_violation(res, '%s/%s/spurious-failure' % (ID, job['name']), 'save threw (class %d) although no fault was injected' % out, replay_of(eng, st, m, job, files), 'fault')
            else:
                # the no-fault path must be exactly the fault-free assignments: its path condition has to allow F_off = 2^32-1
                m = eng.sc.check(st.pc, z3.And(z3.Not(Fo), Foff == 0xffffffff, z3.Not(Fc)))
                if m is None: res['inconclusive'].append('vacuity: the fault-free assignment is excluded from the no-fault path')
                else: res['discharged'] += 1
                res['sample'] = {'object': job['name'], 'paths': len(paths), 'no_fault_path_condition_terms': len(st.pc), 'bytes_written': sum(h[3] for h in st.handles.values()) if st.handles else None}
    if not nofault_seen: res['inconclusive'].append('vacuity: no fault-free path for %s' % job['name'])
    res['solver_queries'] += eng.sc.queries - q0; res['solver_s'] = eng.sc.time - t0
    res['functions'] = sorted(f for f in eng.fn_executed if 'ezc3d' in f)
    return res

def native_confirm(nat, v):
    """replay against the real std::fstream: unopenable destination (directory in the way) or a full device (/dev/full)"""
    rp = dict(v['replay']); f = rp.get('fault', {})
    import os, tempfile, subprocess, shutil
    exe = nat.exe(rp['harness'], rp['entry'])
    d = tempfile.mkdtemp(dir=nat.workdir)
    try:
        with open(os.path.join(d, 'replay.txt'), 'w') as fh:
            for k, val in rp.get('cfg', {}).items(): fh.write('cfg %s %d\n' % (k, val))
            for k, val in rp.get('syms', {}).items(): fh.write('sym %s %d\n' % (k, val))
        for fn, hx in rp.get('files', {}).items(): open(os.path.join(d, fn), 'wb').write(bytes.fromhex(hx))
        if f.get('open') or v['id'].endswith('/open'): os.mkdir(os.path.join(d, 'out.c3d'))          # cannot be opened for writing
        else: os.symlink('/dev/full', os.path.join(d, 'out.c3d'))                                    # every write fails with ENOSPC at flush
        e = dict(os.environ); e['VP_REPLAY'] = os.path.join(d, 'replay.txt')
        pre = None
        if v['id'].endswith('/close') or v['id'].endswith('/write'):
            # a failure that only surfaces late: learn the file size from a fault-free run, then cap the file size one byte
            # below it (SIGXFSZ ignored), so that the last flush - inside close() for small files - is refused
            os.remove(os.path.join(d, 'out.c3d'))
            r0 = subprocess.run([exe], cwd=d, env=e, capture_output=True, timeout=60)
            size = os.path.getsize(os.path.join(d, 'out.c3d')); os.remove(os.path.join(d, 'out.c3d'))
            import resource, signal
            def pre():
                signal.signal(signal.SIGXFSZ, signal.SIG_IGN); resource.setrlimit(resource.RLIMIT_FSIZE, (size - 1, size - 1))
        r = subprocess.run([exe], cwd=d, env=e, capture_output=True, timeout=60, preexec_fn=pre)
        obs = parse_native(r.stdout.decode('latin1'))
        out = dict(api.sections(obs).get('save', [])).get('outcome')
        return out == 0 if 'fault-not-reported' in v['id'] else None
    finally:
        shutil.rmtree(d, ignore_errors=True)
