# Generators of reference-encoded C3D input files (content shapes x layout variants) with symbolic payload.
import z3
from oracle import c3dref
from oracle.c3dref import Param, Group, Content, Layout

F32 = lambda x: __import__('struct').unpack('<I', __import__('struct').pack('<f', x))[0]

class Syms:
    """creates named symbolic payload variables and remembers constraints that keep the file well-formed"""
    def __init__(s, concrete=False, seed=0):
        s.n = 0; s.cons = []; s.concrete = concrete; s.vars = []
        import random; s.rnd = random.Random(seed)
    def bv(s, tag, bits):
        s.n += 1
        if s.concrete: return s.rnd.getrandbits(bits)
        v = z3.BitVec('in_%s_%d' % (tag, s.n), bits); s.vars.append(v); return v
    def f32(s, tag): return s.bv(tag, 32)
    def ch(s, tag, kind=0):
        """printable character; kind 0: non-space 33..126, 1: 32..126"""
        s.n += 1
        if s.concrete: return s.rnd.randint(33 if kind == 0 else 32, 126)
        v = z3.BitVec('in_%s_%d' % (tag, s.n), 8); s.vars.append(v)
        s.cons.append(z3.And(z3.UGE(v, 33 if kind == 0 else 32), z3.ULE(v, 126))); return v
    def text(s, tag, n, kind=0): return [s.ch(tag, kind) for _ in range(n)]

def padded(cells, width):
    return list(cells) + [32] * (width - len(cells))

def char_param(name, strings, width=None, desc='', locked=False, dims_tail=None):
    """2-D (or N-D) char parameter: strings padded with spaces to width"""
    width = width if width is not None else max([len(x) for x in strings] + [0])
    vals = []
    for x in strings: vals += padded(x, width)
    return Param(name, -1, [width] + (dims_tail if dims_tail is not None else [len(strings)]), vals, desc, locked)

def make_content(S, P=2, C=1, sub=2, F=2, labels='equal', analog='full', extras=(), first=1, events=0, label_len=4, gid_map=None, symbolic_meta=True, desc_len=2, reserved=False, fixed_plabels=None, fixed_alabels=None, units_per_point=False, concrete_data=False, analog_lists='equal', point_rate=100.0):
    """S: Syms.  Returns Content whose payload is symbolic."""
    c = Content()
    c.nb_points = P; c.nb_channels = C; c.sub = sub if C else (sub if analog == 'full' else 0)
    if analog == 'empty': c.sub = 0; C = 0; c.nb_channels = 0
    c.first = first; c.last = first + F - 1
    c.rate = F32(point_rate)
    c.gap = S.bv('gap', 16) if symbolic_meta else 10
    nlab = {'equal': P, 'fewer': max(P - 1, 0), 'more': P + 1}[labels]
    plabels = [S.text('plabel', label_len) for _ in range(nlab)]
    if fixed_plabels is not None: plabels = [list(x.encode()) for x in fixed_plabels]; label_len = max([len(x) for x in plabels] + [0])
    c.point_labels = plabels
    gid = gid_map or {'POINT': 1, 'ANALOG': 2, 'EXTRA': 3}
    dsc = lambda t: S.text(t, desc_len, 1) if symbolic_meta else []
    point = Group(gid['POINT'], 'POINT', dsc('gdesc'), False, [
        Param('USED', 2, [], [P], dsc('pdesc'), True),
        Param('SCALE', 4, [], [S.f32('pscale') if symbolic_meta else F32(-1.0)], [], False),
        Param('RATE', 4, [], [F32(point_rate)], [], True),
        Param('DATA_START', 2, [], [0], [], True),
        Param('FRAMES', 2, [], [F], [], False),
        char_param('LABELS', plabels, label_len),
        char_param('DESCRIPTIONS', [S.text('pd', 3, 1 if symbolic_meta else 0) for _ in range(nlab)], 5),
        char_param('UNITS', [[ord('m'), ord('m')]], 4, dims_tail=[]) if not units_per_point else char_param('UNITS', [[ord('m'), ord('m')] for _ in range(nlab)], 2),      # 1-D string, space padded (as vendors write it)
    ])
    alabels = [S.text('alabel', label_len) for _ in range(C)]
    if fixed_alabels is not None: alabels = [list(x.encode()) for x in fixed_alabels]
    c.channel_labels = alabels
    if analog == 'full':
        ana = Group(gid['ANALOG'], 'ANALOG', dsc('gdesc'), True, [
            Param('USED', 2, [], [C], [], True),
            char_param('LABELS', alabels, label_len),
            char_param('DESCRIPTIONS', [S.text('ad', 2, 1 if symbolic_meta else 0) for _ in range(C)], 2),
            Param('GEN_SCALE', 4, [], [S.f32('gs')], [], False),
            Param('SCALE', 4, [C], [S.f32('as') for _ in range(C)], [], False) if analog_lists == 'equal' else Param('SCALE', 4, [C + (3 if analog_lists == 'deviating3' else 1)], [S.f32('as') for _ in range(C + (3 if analog_lists == 'deviating3' else 1))], [], False),
            Param('OFFSET', 2, [C], [S.bv('ao', 16) for _ in range(C)], [], False),
            char_param('UNITS', [S.text('au', 1) for _ in range(C)] if analog_lists == 'equal' else [], 4),
            Param('RATE', 4, [], [F32(point_rate * (sub if sub else 1))], [], True),
        ])
    else:
        ana = Group(gid['ANALOG'], 'ANALOG', [], False, [])
    c.groups = [point, ana]
    ex = []
    for e in extras:
        ex.append(make_extra(S, e))
    if ex: c.groups.append(Group(gid['EXTRA'], 'EXTRA', dsc('gdesc'), False, ex))
    if events:
        c.nb_events = events
        for i in range(events):
            c.event_times[i] = S.f32('evt'); c.event_flags[i] = S.bv('evf', 8); c.event_labels[i] = S.text('evl', 4)
    if reserved:
        # words the specification leaves reserved or unused here: carried through by a faithful reader/writer
        c.key_block = S.bv('kb', 16)
        for w in (13, 14, 80, 147, 152, 198, 235, 256): c.reserved[w] = S.bv('rsv', 16)
    # frames
    import random as _r
    rr = _r.Random(17)
    cf = (lambda t: (rr.getrandbits(32) & 0x7f7fffff) | 0x00000001 | (rr.randint(1, 255))) if concrete_data else S.f32     # concrete data: finite floats, low byte never 0
    for f in range(F):
        pts = [[cf('x'), cf('y'), cf('z'), cf('r')] for _ in range(P)]
        an = [[cf('a') for _ in range(C)] for _ in range(c.sub)]
        c.frames.append((pts, an))
    return c

def make_extra(S, e):
    """e: dict(name, type, dims, desc_len, locked, pad (for 1-D strings), slen)"""
    t = e['type']; dims = list(e.get('dims', [])); n = 1
    for d in dims: n *= d
    desc = S.text('xdesc', e.get('desc_len', 0), 1) if not e.get('concrete_desc') else [ord('d')] * e.get('desc_len', 0)
    if t == 2: vals = [S.bv('xi', 16) for _ in range(n)]
    elif t == 1: vals = [S.bv('xb', 8) for _ in range(n)]
    elif t == 4: vals = [S.f32('xf') for _ in range(n)]
    else:
        # char: dims[0] is the string width; content = slen printable chars + padding spaces
        L = dims[0] if dims else 0; cnt = n // L if L else 0
        vals = []
        for k in range(cnt): vals += padded(S.text('xs', min(e.get('slen', L), L)), L)
    return Param(e['name'], t, dims, vals, desc, e.get('locked', False))

def to_engine_cells(cells):
    return [c if type(c) is int else (c, 0) for c in cells]
