# C12 Every integer and float bit pattern is decoded and encoded exactly (DESIGN.md section 4, C12)
from .common import *
from . import gen, c02
from oracle import c3dref, obsmodel
ID = 'C12'
HARNESSES = ['h_load.cpp']
LEVEL = 'model_checking'
BUDGET = {'quick': 280, 'thorough': 2400}
BOUNDS = {'quick': 'input files with a BYTE[4], INT[4], FLOAT[4] parameter, every non-structural header word, event times/flags/labels and all data floats free (one z3 query covers all 2^8 / 2^16 / 2^32 patterns per element); first frame free in 1..65535-F; header frame rate = POINT:RATE = one free float pattern; load, then save and compare the emitted bytes field by field with the input',
          'thorough': 'same on 4 shapes and 3 layouts; 8 values per parameter'}
OUTSIDE = 'word counts that change loop bounds (points, channels, frames are enumerated, not symbolic); integer-format data'
ASSUMPTIONS = c02.ASSUMPTIONS + ['header scale factor: sign bit forced to 1 (float data), other 31 bits free']

def jobs(tier, seed):
    out = []
    n = 4 if tier == 'quick' else 8
    ex = [{'name': 'BYTES', 'type': 1, 'dims': [n]}, {'name': 'INTS', 'type': 2, 'dims': [n]}, {'name': 'REALS', 'type': 4, 'dims': [n]},
          {'name': 'INTS2D', 'type': 2, 'dims': [2, 2]}, {'name': 'BSCALAR', 'type': 1, 'dims': []}, {'name': 'FSCALAR', 'type': 4, 'dims': []}]
    shapes = [dict(P=1, C=1, sub=1, F=1)] + ([dict(P=2, C=2, sub=2, F=2), dict(P=0, C=1, sub=2, F=1), dict(P=2, C=0, sub=1, F=2)] if tier == 'thorough' else [dict(P=2, C=1, sub=2, F=2)])
    lays = [{}] + ([{'zeros': 1, 'param_block': 3}, {'order': 'reversed'}] if tier == 'thorough' else [{'order': 'reversed'}])
    for sh in shapes:
        for lay in lays:
            # one parameter kind per job keeps the number of sign-test forks small
            for e in ex:
                out.append({'entry': 'h_load', 'harness': 'h_load.cpp', 'name': 'patterns-' + e['name'], 'cfg': {'gens': 1, 'dump': 1, 'obsfiles': 1}, 'shape': sh, 'lay': lay,
                            'opts': {'extras': [e], 'events': 2, 'reserved': False, 'symbolic_meta': True}, 'free_header': True})
            out.append({'entry': 'h_load', 'harness': 'h_load.cpp', 'name': 'header-words', 'cfg': {'gens': 1, 'dump': 1, 'obsfiles': 1}, 'shape': sh, 'lay': lay,
                        'opts': {'extras': [], 'events': 18, 'symbolic_meta': True}, 'free_header': True, 'free_first': True})
    for sh in shapes[:1]:
        out.append({'entry': 'h_load', 'harness': 'h_load.cpp', 'name': 'header-rate', 'cfg': {'gens': 1, 'dump': 1, 'obsfiles': 1}, 'shape': dict(P=1, C=0, sub=0, F=1), 'lay': {},
                    'opts': {'extras': [], 'events': 0, 'symbolic_meta': True, 'analog': 'empty'}, 'free_rate': True})
    return out

def build(job, concrete_seed=None):
    S = gen.Syms(concrete=concrete_seed is not None, seed=concrete_seed or 0)
    c = gen.make_content(S, **job['shape'], **job['opts'])
    if job.get('free_header'):
        sc = S.bv('scale', 32); c.scale = sc
        if not S.concrete: S.cons.append(z3.Extract(31, 31, sc) == 1)
        else: c.scale |= 0x80000000
        c.key_label = S.bv('keylabel', 16); c.key_block = S.bv('keyblock', 16); c.four_char = S.bv('fourchar', 16)
        c.nb_events = S.bv('nbevents', 16)
        for i in range(18):
            if is_c(c.event_times[i]) and c.event_times[i] == 0 and i >= job['opts'].get('events', 0):
                c.event_times[i] = S.f32('evt'); c.event_flags[i] = S.bv('evf', 8)
    if job.get('free_rate'):
        r = S.f32('rate'); c.rate = r
        for g in c.groups:
            for p in g.params:
                if bytes(x for x in g.name) == b'POINT' and bytes(x for x in p.name) == b'RATE': p.values = [r]
    if job.get('free_first'):
        F = job['shape']['F']
        fst = S.bv('first', 16)
        if not S.concrete:
            S.cons.append(z3.And(z3.UGE(fst, 1), z3.ULE(fst, 65535 - F)))
            c.first = fst; c.last = fst + (F - 1)
        else:
            c.first = 1 + fst % (65535 - F); c.last = c.first + F - 1
    lay = c3dref.Layout(**job['lay'])
    cells = c3dref.encode_with_data_start(c, lay)
    return S, c, lay, cells

def file_vs_file(Din, fin, Dout, fout, prefix):
    """the re-saved file encodes, field by field, the same bytes as the input"""
    O = []
    def o(name, a, b, detail=None): O.append(Obl('%s/%s' % (prefix, name), neq(a, b), detail or name))
    Hi, Ho = Din['H'], Dout['H']
    for k in ('nb_points', 'analog_total', 'first', 'last', 'gap', 'scale', 'sub', 'rate', 'key_label', 'key_block', 'four_char', 'nb_events'):
        o('header.' + k, Hi[k], Ho[k], 'header field %s' % k)
    for i in range(18):
        o('header.event_time', Hi['event_times'][i], Ho['event_times'][i], 'event time %d' % i)
        o('header.event_flag', Hi['event_flags'][i], Ho['event_flags'][i], 'event display flag %d' % i)
    for gid, g in Din['groups'].items():
        gn = bytes(g['name']).decode()
        for p in g['params']:
            pn = bytes(p['name']).decode(); q = Dout['par'](gn, pn)
            if q is None: O.append(Obl(prefix + '/param.missing', True, '%s:%s missing in the re-saved file' % (gn, pn))); continue
            if pn == 'DATA_START': continue
            if p['type'] == -1: continue        # strings: C04
            o('param.type', p['type'], q['type'], 'type of %s:%s' % (gn, pn))
            if len(p['values']) != len(q['values']): O.append(Obl(prefix + '/param.count', True, '%s:%s has %d values, re-saved %d' % (gn, pn, len(p['values']), len(q['values'])))); continue
            for k, (a, b) in enumerate(zip(p['values'], q['values'])):
                o({1: 'param.byte', 2: 'param.int', 4: 'param.float'}[p['type']], a, b, 'value %d of %s:%s' % (k, gn, pn))
    if len(fin) != len(fout): O.append(Obl(prefix + '/data.frames', True, '%d frames in, %d out' % (len(fin), len(fout))))
    for f, ((pi, ai), (po, ao)) in enumerate(zip(fin, fout)):
        for i, (a, b) in enumerate(zip(pi, po)):
            for k in range(4): o('data.point', a[k], b[k], 'component %d of point %d frame %d' % (k, i, f))
        for s, (sa, sb) in enumerate(zip(ai, ao)):
            for i, (a, b) in enumerate(zip(sa, sb)): o('data.analog', a, b, 'channel %d sub-frame %d frame %d' % (i, s, f))
    return O

def obligations_for(cells, lay, c, sec):
    D = c3dref.decode(cells, zeros=lay.zeros)
    frames = c3dref.decode_frames(cells, D, zeros=lay.zeros, nframes=len(c.frames))
    O = obsmodel.compare_loaded_with_file(D, frames, obsmodel.parse_dump(sec['gen1']), 'decode', {'point_labels': c.point_labels, 'channel_labels': c.channel_labels})
    out = [cell_value(x) for x in dict(sec['files1'])['#file:gen2.c3d']]
    try:
        D2 = c3dref.decode(out)
        f2 = c3dref.decode_frames(out, D2, nframes=len(c.frames))
        O += file_vs_file(D, frames, D2, f2, 'encode')
    except (c3dref.DecodeError, IndexError) as e:
        O.append(Obl('encode/decodable', True, 'the re-saved file cannot be decoded: %s' % e))
    return O

def run_job(engine, job):
    S, c, lay, cells = build(job)
    files = {'in.c3d': gen.to_engine_cells(cells)}
    def obligations(sec, job, st): return obligations_for(cells, lay, c, sec)
    return std_run(engine, job, obligations, 'end', ID, job['name'], files=files, assume=S.cons, fatal_as='violation')

def native_confirm(nat, v):
    rp = v['replay']
    out, sec = native_sections(nat, rp)
    if out['rc'] != 0 or 'gen1' not in sec: return None
    job = v['job']
    S, c, lay, _ = build(job, concrete_seed=1)
    cells = list(bytes.fromhex(rp['files']['in.c3d']))
    D = c3dref.decode(cells, zeros=lay.zeros)
    pl = D['par']('POINT', 'LABELS'); al = D['par']('ANALOG', 'LABELS')
    c.point_labels = c3dref.strings_of(pl) if pl else []; c.channel_labels = c3dref.strings_of(al) if al else []
    obls = obligations_for(cells, lay, c, sec)
    locus = v['id'].split('/', 2)[-1]
    return any(o.bad is True and o.locus == locus for o in obls)
