# Helpers shared by the scenario modules (worker side).
import time, z3
from irsym import api
from irsym.core import *
from irsym.check import Obl, compare, decide, neq, upper
from framework import new_result, add_path, add_violation, replay_of, FATAL_KINDS, parse_native

def describe_end(r):
    i = r.info
    if type(i) is tuple: return '%s: %s' % (r.kind, ' | '.join(str(x) for x in i))
    return '%s: %s' % (r.kind, i)

def sample_of(job, r, sec=None, n=6):
    s = {'cfg': job.get('cfg'), 'entry': job['entry'], 'path_end': r.kind, 'path_condition_terms': len(r.st.pc) if r.st else 0,
         'symbols': [x for x, _ in r.st.symlist[:8]] if r.st else []}
    if r.st and r.st.choices: s['history'] = ['%s=%d' % c for c in r.st.choices]
    if sec:
        for k, v in sec.items():
            if v: s['obs_' + k] = ['%s=%s' % (l, (str(x)[:40] if not isinstance(x, list) else '[%d bytes]' % len(x))) for l, x in v[:n]]
    return s

def vacuity_twin(eng, st, obls, res):
    """a known-false twin of the first symbolic obligation must be refutable (sat); else the run is vacuous"""
    for o in obls:
        if o.bad is not True and o.bad is not False:
            m = eng.sc.check(st.pc, z3.Not(o.bad))
            res['twins'] = res.get('twins', 0) + 1
            if m is None:
                res['inconclusive'].append('vacuity: equality of %s is unsatisfiable under the path condition' % o.locus)
            return
    m = eng.sc.check(st.pc)
    if m is None: res['inconclusive'].append('vacuity: path condition unsatisfiable')

def std_run(engine, job, obligations_fn, marker, prop, scen, files=None, opt='O1', wall=200, maxsteps=30_000_000, fatal_as='inconclusive', **kw):
    """run job['entry'] with job['cfg']; for each returning path build obligations with obligations_fn(sections, job, st)
    and decide them.  Paths that end abnormally are 'inconclusive' for value properties (C13 judges them)."""
    eng = engine(opt)
    res = new_result()
    q0 = eng.sc.queries; t0 = eng.sc.time
    paths = api.run_fn(eng, job['entry'], cfg=job.get('cfg'), files=files, wall=wall, maxsteps=maxsteps, **kw)
    first = True
    for r in paths:
        add_path(res, r)
        if r.kind == 'TIMEOUT':
            res['inconclusive'].append('%s %s: %s' % (scen, job.get('cfg'), r.info)); continue
        if r.kind != 'return' or (marker and marker not in r.st.reached):
            msg = '%s cfg=%s choices=%s: path ended with %s' % (scen, job.get('cfg'), [v for _, v in r.st.choices] if r.st else '', describe_end(r))
            if fatal_as == 'violation' and r.kind not in ('budget', 'unsupported', 'inconclusive'):
                m = eng.sc.check(r.st.pc)
                add_violation(res, '%s/%s/%s' % (prop, scen, end_locus(r)), msg, replay_of(eng, r.st, m, job, files), 'memory')
            else:
                res['inconclusive'].append(msg)
            continue
        sec = api.sections(r.st.obs)
        try:
            obls = obligations_fn(sec, job, r.st)
        except (IndexError, KeyError) as e:
            # the observations do not even have the shape the oracle expects (a list shorter than the structure announced, a
            # section missing): that is a disagreement with the expected behaviour, not something to crash on
            obls = [Obl('structure/observations-malformed', True, 'observations do not have the expected structure (%s: %s)' % (type(e).__name__, e))]
        if first:
            vacuity_twin(eng, r.st, obls, res); first = False
            res['sample'] = sample_of(job, r, sec)
        stats = res
        for o, m in decide(eng, r.st, obls, stats):
            add_violation(res, '%s/%s/%s' % (prop, scen, o.locus), o.detail, replay_of(eng, r.st, m, job, files), o.cls)
    res['solver_queries'] += eng.sc.queries - q0
    res['solver_s'] = eng.sc.time - t0
    res['functions'] = sorted(f for f in eng.fn_executed if 'ezc3d' in f)
    return res

def is_sweep(j):
    """jobs of the complete shape sweeps (C01 API-built, C02/C04 files): the checks that only borrow those job lists skip them in the quick tier"""
    return bool(j.get('sweep')) or str(j.get('name', '')).startswith('shape-sweep')

def end_locus(r):
    i = r.info
    if type(i) is tuple:
        return '%s/%s@%s' % (r.kind, i[0], short_fn(i[-1]) if len(i) > 1 else '')
    return '%s' % r.kind

def short_fn(n):
    """mangled name -> stable short locus"""
    import re
    if not isinstance(n, str): return str(n)
    m = re.findall(r'\d+([A-Za-z_][A-Za-z_0-9]*)', n)
    return '::'.join(m[:5]) if m else n[:60]

def native_sections(nat, replay, **kw):
    out = nat.run(replay, **kw)
    return out, api.sections(out['obs'])

def native_confirm_by(obligations_fn, prefix_strip=2):
    """standard native confirmation: replay, rebuild the obligations on the concrete native observations and
    see whether the same locus fails there."""
    def f(nat, v):
        out, sec = native_sections(nat, v['replay'])
        if out['rc'] != 0: return None
        job = {'cfg': v['replay']['cfg'], 'entry': v['replay']['entry'], 'harness': v['replay']['harness']}
        try: obls = obligations_fn(sec, job, None)
        except KeyError: return None
        locus = v['id'].split('/', prefix_strip)[-1]
        for o in obls:
            if o.bad is True and o.locus == locus: return True
        return False
    return f
