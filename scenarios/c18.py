# C18 Independent objects can be used from different threads (DESIGN.md section 4, C18)
from .common import *
from . import gen, histcommon
from oracle import c3dref
ID = 'C18'
HARNESSES = ['h_c18.cpp']
LEVEL = 'model_checking'
BUDGET = {'quick': 250, 'thorough': 1500}
BOUNDS = {'quick': 'two programs A and B (construct, declare, add frames, add parameter, refused call, save, load another file, lock, add channel, save, reload, out-of-range look-up, print, destroy) on disjoint objects and paths, all payload symbolic; run as A, B, A;B and B;A. Checked on every path: (i) library code stores to no global/static object and loads from no mutable one, (ii) in the sequential compositions neither program touches an object allocated by the other, (iii) each program\'s observations and files in the compositions equal those of its run alone (z3)',
          'thorough': 'the same with 3 input layouts and the history harness as program body'}
OUTSIDE = 'schedules are not enumerated: the argument is non-interference (no shared mutable object => no interleaving can race or change a result); weak-memory effects are vacuous when nothing is shared; operator new/delete, shared_ptr reference counts (atomicrmw in the IR) and std::fstream on distinct objects are trusted to be thread-safe as documented'
ASSUMPTIONS = ['reads of __libc_single_threaded (glibc, consulted by shared_ptr reference counting) are trusted; the model holds it false so the atomic code path is the one executed', 'threads can only interact through an object both can reach; objects built from disjoint arguments can share only globals/function-local statics, which the executor attributes per access']
RULE = 'one evaluation = one finished path of one composition order; non-trivial = symbolic payload'
TRUSTED_GLOBALS = ('__libc_single_threaded',)     # glibc's flag read by libstdc++'s shared_ptr to pick atomic reference counting (modelled as 'threads exist')

def jobs(tier, seed):
    lays = [{}] if tier == 'quick' else [{}, {'zeros': 1, 'param_block': 3}, {'order': 'reversed'}]
    out = [{'entry': 'h_c18', 'harness': 'h_c18.cpp', 'name': 'compose', 'cfg': {'order': 0}, 'lay': l, 'content': {}} for l in lays]
    # the files loaded by both programs hold more points than labels: the reader invents the missing names
    out.append({'entry': 'h_c18', 'harness': 'h_c18.cpp', 'name': 'compose-unlabelled-input', 'cfg': {'order': 0}, 'lay': {}, 'content': {'labels': 'fewer', 'fixed_plabels': ['q0']}})
    return out

def input_files(lay, concrete_seed=None, content=None):
    out = {}; cons = []
    for tag in ('A', 'B'):
        S = gen.Syms(concrete=concrete_seed is not None, seed=(concrete_seed or 0) + ord(tag))
        S.n = 1000 * ord(tag)
        c = gen.make_content(S, P=2, C=1, sub=2, F=2, **dict(dict(fixed_plabels=['q0', 'q1'], fixed_alabels=['b0'], symbolic_meta=False, units_per_point=True), **(content or {})))
        out['in%s.c3d' % tag] = c3dref.encode_with_data_start(c, c3dref.Layout(**lay)); cons += S.cons
    return out, cons

def run_job(engine, job):
    eng = engine('O1')
    res = new_result(); q0 = eng.sc.queries; t0 = eng.sc.time
    files, cons = input_files(job['lay'], content=job.get('content'))
    efiles = {k: gen.to_engine_cells(v) for k, v in files.items()}
    runs = {}
    for order in (0, 1, 2, 3):
        paths = api.run_fn(eng, 'h_c18', cfg={'order': order}, files=efiles, assume=cons, wall=200)
        runs[order] = paths
        for r in paths:
            add_path(res, r)
            name = ['A alone', 'B alone', 'A then B', 'B then A'][order]
            if r.kind != 'return' or 'c18.end' not in r.st.reached:
                res['inconclusive'].append('%s: path ended with %s' % (name, describe_end(r))); continue
            seen = set()
            for e in r.st.events:
                if e[0] in ('global-store', 'mutable-global-load', 'cross-program-access') and not (e[0] != 'cross-program-access' and e[1] in TRUSTED_GLOBALS):
                    key = (e[0], e[1] if e[0] != 'cross-program-access' else e[2].split('[')[0], short_fn(e[-1]))
                    if key in seen: continue
                    seen.add(key)
                    res['obligations'] += 1
                    m = eng.sc.check(r.st.pc)
                    add_violation(res, '%s/compose/%s/%s@%s' % (ID, e[0], key[1], key[2]), '%s: %s %s in %s' % (name, e[0], ' '.join(str(x) for x in e[1:-1]), short_fn(e[-1])),
                                  replay_of(eng, r.st, m, dict(job, cfg={'order': order}), efiles), 'memory')
            res['obligations'] += 3; res['discharged'] += 3 - (1 if seen else 0)
    # (iii) each program's results in the compositions equal its results alone.  All runs are single-path for fixed shapes;
    # with several paths, compare pairs whose path conditions are jointly satisfiable.
    def secs(r): return api.sections(r.st.obs)
    for prog, alone in (('A', 0), ('B', 1)):
        for comp in (2, 3):
            for ra in runs[alone]:
                if ra.kind != 'return': continue
                for rc in runs[comp]:
                    if rc.kind != 'return': continue
                    pc = list(ra.st.pc) + [c for c in rc.st.pc if all(c.get_id() != x.get_id() for x in ra.st.pc)]
                    if eng.sc.check(pc) is None: continue
                    sa, sc_ = secs(ra), secs(rc)
                    O = []
                    for t in (prog, prog + '#2'):
                        O += compare(sa[t], sc_[t], 'same-results/%s' % prog)
                    fa, fc = dict(sa['files']), dict(sc_['files'])
                    for fn in fa:
                        x = [cell_value(c) for c in fa[fn]]; y = [cell_value(c) for c in fc[fn]]
                        if len(x) != len(y): O.append(Obl('same-files/%s' % prog, True, '%s has %d bytes alone, %d in %s' % (fn, len(x), len(y), ['', '', 'A;B', 'B;A'][comp]))); continue
                        for k, (p, q) in enumerate(zip(x, y)): O.append(Obl('same-files/%s' % prog, neq(p, q) if p is not None and q is not None else (p is not q), 'byte %d of %s' % (k, fn)))
                    class _S: pass
                    st = _S(); st.pc = pc
                    for o, m in decide(eng, st, O, res):
                        add_violation(res, '%s/compose/%s' % (ID, o.locus), 'program %s in %s vs alone: %s' % (prog, ['', '', 'A;B', 'B;A'][comp], o.detail), None, 'value')
    res['sample'] = {'programs': 'A and B: construct/edit/save/load/edit/save/reload/print/destroy on disjoint objects', 'orders': ['A', 'B', 'A;B', 'B;A'], 'paths_per_order': [len(runs[o]) for o in (0, 1, 2, 3)],
                     'global_objects_in_module': len([1 for o in eng.init_state.mem.values() if o.kind == 'global']), 'mutable_globals': sorted(o.name for o in eng.init_state.mem.values() if o.kind == 'global' and not o.ro)[:20]}
    res['solver_queries'] += eng.sc.queries - q0; res['solver_s'] = eng.sc.time - t0
    res['functions'] = sorted(f for f in eng.fn_executed if 'ezc3d' in f)
    return res
