# C02 Loading a well-formed C3D yields exactly what the file encodes (DESIGN.md section 4, C02)
from .common import *
from . import gen
from oracle import c3dref, obsmodel
ID = 'C02'
HARNESSES = ['h_load.cpp']
LEVEL = 'model_checking'
BUDGET = {'quick': 280, 'thorough': 3000}
BOUNDS = {'quick': 'reference-encoded files: shapes P<=2,C<=2,sub<=2,F<=2; each layout variant once + pairwise-critical combinations; all payload bytes symbolic (floats, ints, bytes, printable characters)',
          'thorough': 'full product of layout variants on quick shapes; each variant on shapes up to 3x3x3x3'}
OUTSIDE = 'integer-format data, big-endian/DEC files; files with more than 3 frames/points/channels (vendor files are covered by the translator validation only); names with symbolic characters'
ASSUMPTIONS = ['input files come from oracle/c3dref.py (written from the C3D user guide, not from ezc3d)', 'POINT:RATE=100, ANALOG:RATE=100*sub concrete', 'text payload is printable ASCII']

EXTRAS_Q = [
    {'name': 'INTS', 'type': 2, 'dims': [2, 2], 'desc_len': 3, 'locked': True},
    {'name': 'BYTES', 'type': 1, 'dims': [3], 'desc_len': 0},
    {'name': 'REALS', 'type': 4, 'dims': [2], 'desc_len': 1},
    {'name': 'ISCALAR', 'type': 2, 'dims': [], 'desc_len': 2},
    {'name': 'STR1D', 'type': -1, 'dims': [6], 'slen': 4, 'desc_len': 0},
    {'name': 'STR2D', 'type': -1, 'dims': [4, 2], 'slen': 3, 'desc_len': 2, 'locked': True},
    {'name': 'EMPTYI', 'type': 2, 'dims': [0], 'desc_len': 0},
]
EXTRAS_T = EXTRAS_Q + [
    {'name': 'STR3D', 'type': -1, 'dims': [3, 2, 2], 'slen': 2, 'desc_len': 17},
    {'name': 'R7D', 'type': 4, 'dims': [1, 2, 1, 1, 2, 1, 1], 'desc_len': 1},
    {'name': 'B2D', 'type': 1, 'dims': [2, 3], 'desc_len': 0},
    {'name': 'ESTR', 'type': -1, 'dims': [0, 0], 'desc_len': 0},
    {'name': 'LONGDESC', 'type': 2, 'dims': [1], 'desc_len': 127},
]

def jobs(tier, seed):
    out = []
    def J(name, shape=None, lay=None, **kw):
        sh = dict(P=2, C=1, sub=2, F=2); sh.update(shape or {})
        out.append({'entry': 'h_load', 'harness': 'h_load.cpp', 'name': name, 'cfg': {'gens': 0, 'dump': 1, 'obsfiles': 0}, 'shape': sh, 'lay': lay or {}, 'opts': kw})
    ex = EXTRAS_Q if tier == 'quick' else EXTRAS_T
    J('plain', extras=ex)
    for z in (1, 511, 512): J('zeros%d' % z, lay={'zeros': z}, extras=ex[:2])
    J('block3', lay={'param_block': 3}, extras=ex[:3])
    J('zeros1+block3', lay={'zeros': 1, 'param_block': 3})
    J('zero_prologue', lay={'zero_prologue': True}, extras=ex[:2])
    J('analog_empty', shape={'C': 0, 'sub': 0}, analog='empty')
    J('reversed', lay={'order': 'reversed'}, extras=ex)
    J('params_first', lay={'order': 'params_first'}, extras=ex[:4])
    J('sparse_ids', gid_map={'POINT': 2, 'ANALOG': 5, 'EXTRA': 9}, extras=ex[:3])
    J('out_of_order_ids', gid_map={'POINT': 3, 'ANALOG': 1, 'EXTRA': 2}, extras=ex[:3])
    J('sparse+reversed', lay={'order': 'reversed'}, gid_map={'POINT': 4, 'ANALOG': 2, 'EXTRA': 7}, extras=ex[:2])
    J('labels_fewer', labels='fewer')
    J('labels_more', labels='more')
    J('scalar_as_dim1', lay={'scalar_dims': 1}, extras=ex[:4])
    J('zero_offset_terminator', lay={'terminator': 'zero_offset'}, extras=ex[:2])
    for order in ('canonical', 'reversed', 'params_first'):
        J('zero_offset_terminator+%s+described' % order, lay={'terminator': 'zero_offset', 'order': order}, extras=ex[:1])
        J('zero_offset_terminator+%s+plain' % order, lay={'terminator': 'zero_offset', 'order': order}, extras=ex[1:2], desc_len=0)
    import itertools
    sweep = []
    for rank in (1, 2, 3):
        for dims in itertools.product((0, 1, 2), repeat=rank):
            for t in (1, 2, 4, -1):
                sweep.append({'name': 'S%03d' % len(sweep), 'type': t, 'dims': list(dims), 'desc_len': len(sweep) % 2, 'slen': 1, 'locked': len(sweep) % 5 == 0})
    for i in range(0, len(sweep), 6):
        J('shape-sweep-%d' % (i // 6), shape={'P': 1, 'C': 0, 'sub': 0, 'F': 1}, analog='empty', symbolic_meta=False, extras=sweep[i:i + 6])
    # rates that are not whole numbers (the loader derives the sub-frame count from ANALOG:RATE / POINT:RATE): quarter-Hz steps from 1 to 6 Hz
    for q in range(4, 25):
        for sub_ in (2, 3, 4):
            J('shape-sweep-rate-%dq-x%d' % (q, sub_), shape={'P': 1, 'C': 1, 'sub': sub_, 'F': 2}, symbolic_meta=False, point_rate=q / 4.0)
    J('first_frame_2', first=2)
    J('first_frame_1000', first=1000, shape={'F': 1})
    J('events3', events=3)
    J('events18', events=18, shape={'P': 1, 'C': 0, 'sub': 0, 'F': 1}, analog='empty')
    J('extra_param_block', lay={'extra_param_blocks': 1})
    J('no_points', shape={'P': 0, 'C': 2, 'sub': 1, 'F': 2})
    J('no_frames', shape={'P': 2, 'C': 1, 'sub': 1, 'F': 0})
    J('points_only_full_analog_group', shape={'P': 2, 'C': 0, 'sub': 1, 'F': 2})
    J('sub1', shape={'P': 1, 'C': 2, 'sub': 1, 'F': 1})
    J('reserved_words', reserved=True, shape={'P': 1, 'C': 1, 'sub': 1, 'F': 1})
    J('desc128', shape={'P': 1, 'C': 0, 'sub': 0, 'F': 1}, analog='empty', extras=[{'name': 'D128', 'type': 2, 'dims': [1], 'desc_len': 128}])
    J('desc255', shape={'P': 1, 'C': 0, 'sub': 0, 'F': 1}, analog='empty', extras=[{'name': 'D255', 'type': 4, 'dims': [2], 'desc_len': 255}], desc_len=130)
    if tier == 'thorough':
        for z in (0, 1, 512):
            for pb in (2, 3):
                for order in ('canonical', 'reversed', 'params_first'):
                    for zp in (False, True):
                        J('prod z%d pb%d %s zp%d' % (z, pb, order, zp), lay={'zeros': z, 'param_block': pb, 'order': order, 'zero_prologue': zp}, extras=ex[:3])
        for P in range(0, 4):
            for C in range(0, 4):
                for sub in (1, 3):
                    if P == 0 and C == 0: continue      # frames that carry nothing: degenerate (see known finding @empty-frame-stored)
                    J('shape %d %d %d' % (P, C, sub), shape={'P': P, 'C': C, 'sub': sub, 'F': 3}, extras=ex[5:8], symbolic_meta=(P + C <= 3))
        for i in range(0, len(ex), 2):
            J('extras %d' % i, extras=ex[i:i + 2], lay={'order': 'reversed', 'scalar_dims': 1})
    return out

def build_file(job, concrete_seed=None):
    S = gen.Syms(concrete=concrete_seed is not None, seed=concrete_seed or 0)
    o = dict(job['opts'])
    c = gen.make_content(S, **job['shape'], **o)
    lay = c3dref.Layout(**job['lay'])
    cells = c3dref.encode_with_data_start(c, lay)
    return S, c, lay, cells

def obligations_for(cells, lay, c, M):
    D = c3dref.decode(cells, zeros=lay.zeros)
    bad = [x for x in D['checks'] if not x[1]]
    assert not bad, 'reference encoder produced a file its own decoder rejects: %s' % bad
    frames = c3dref.decode_frames(cells, D, zeros=lay.zeros)
    return obsmodel.compare_loaded_with_file(D, frames, M, 'load', {'point_labels': c.point_labels, 'channel_labels': c.channel_labels})

def run_job(engine, job):
    S, c, lay, cells = build_file(job)
    files = {'in.c3d': gen.to_engine_cells(cells)}
    def obligations(sec, job, st):
        return obligations_for(cells, lay, c, obsmodel.parse_dump(sec['gen1']))
    return std_run(engine, job, obligations, 'end', ID, job['name'], files=files, assume=S.cons, fatal_as='violation')

def native_confirm(nat, v):
    rp = v['replay']
    out, sec = native_sections(nat, rp)
    if out['rc'] != 0 or 'gen1' not in sec: return True if v['id'].endswith('refused') else None
    job = v['job']
    S, c, lay, _ = build_file(job, concrete_seed=1)
    cells = list(bytes.fromhex(rp['files']['in.c3d']))
    # labels as stored in the concrete file
    D = c3dref.decode(cells, zeros=lay.zeros)
    pl = D['par']('POINT', 'LABELS'); al = D['par']('ANALOG', 'LABELS')
    c.point_labels = c3dref.strings_of(pl) if pl else []; c.channel_labels = c3dref.strings_of(al) if al else []
    obls = obligations_for(cells, lay, c, obsmodel.parse_dump(sec['gen1']))
    locus = v['id'].split('/', 2)[-1]
    return any(o.bad is True and o.locus == locus for o in obls)

# ---- translator validation (DESIGN.md 2.6-1): the engine, run CONCRETELY on the repository's own kind of inputs, must
# produce exactly the observations of the same harness compiled natively with g++ against the real std::fstream.
def _vendor_prefix(path, nframes):
    """first nframes frames of a vendor file, re-headed (header last-frame word and POINT:FRAMES patched)"""
    b = bytearray(open(path, 'rb').read())
    D = c3dref.decode(list(b)); H = D['H']
    P, tot, sub = H['nb_points'], H['analog_total'], H['sub']
    per = 4 * (4 * P + tot)
    have = H['last'] - H['first'] + 1
    n = min(nframes, have)
    last = H['first'] + n - 1
    b[8:10] = last.to_bytes(2, 'little')
    fr = D['par']('POINT', 'FRAMES')
    b[fr['valpos']:fr['valpos'] + 2] = n.to_bytes(2, 'little')
    start = 512 * (D['data_block'] - 1)
    return bytes(b[:start + n * per])

def extra_validation(nat, results, tier):
    import os, random
    from irsym import api as _api
    repo = os.environ.get('VERIF_REPO', '/repo')
    eng = _api.load_engine(os.path.join(nat.workdir, 'O1', 'mO1.ll'))
    inputs = []
    # (a) a file written natively by the real library in the shape of the suite's CreateWriteAndReadBack test
    rnd = random.Random(3); syms = {}
    for tag in 'xyzra':
        for k in range(400): syms['%s#%d' % (tag, k)] = rnd.getrandbits(32)
    import scenarios.c01 as c01
    wr = nat.run({'harness': 'h_c01.cpp', 'entry': 'h_c01', 'cfg': c01.base(P=3, C=3, S=2, F=3), 'syms': syms})
    if 'out.c3d' in wr['files']: inputs.append(('library-written 3x3x2x3', wr['files']['out.c3d']))
    else: return 0, ['translator validation: native writer produced no file (rc %s)' % wr['rc']]
    # (b) the repository's vendor files
    cf = os.path.join(repo, 'test', 'c3dFiles')
    if tier == 'thorough':
        inputs.append(('Optotrak.c3d', open(os.path.join(cf, 'Optotrak.c3d'), 'rb').read()))
        inputs.append(('Vicon.c3d first 40 frames', _vendor_prefix(os.path.join(cf, 'Vicon.c3d'), 40)))
        inputs.append(('Qualisys.c3d first 40 frames', _vendor_prefix(os.path.join(cf, 'Qualisys.c3d'), 40)))
    else:
        inputs.append(('Vicon.c3d first 2 frames', _vendor_prefix(os.path.join(cf, 'Vicon.c3d'), 2)))
        inputs.append(('Qualisys.c3d first 2 frames', _vendor_prefix(os.path.join(cf, 'Qualisys.c3d'), 2)))
    ok = 0; bad = []
    cfg = {'gens': 0, 'dump': 1, 'obsfiles': 0}
    for name, data in inputs:
        n = nat.run({'harness': 'h_load.cpp', 'entry': 'h_load', 'cfg': cfg, 'files': {'in.c3d': data.hex()}}, timeout=600)
        paths = _api.run_fn(eng, 'h_load', cfg=cfg, files={'in.c3d': list(data)}, wall=1200, maxsteps=400_000_000)
        if len(paths) != 1 or paths[0].kind != 'return': bad.append('translator validation %s: engine ended with %s' % (name, [(p.kind, str(p.info)[:80]) for p in paths][:2])); continue
        eo = [(l, v) for l, v in paths[0].st.obs]; no = n['obs']
        no = [x for x in no if not x[0].startswith('#reached')]
        if len(eo) != len(no): bad.append('translator validation %s: %d observations in the engine, %d natively' % (name, len(eo), len(no))); continue
        diff = [(i, a, b) for i, (a, b) in enumerate(zip(eo, no)) if a[0] != b[0] or (a[1] != b[1] if not isinstance(a[1], list) else list(a[1]) != list(b[1]))]
        if diff: bad.append('translator validation %s: observation %d differs: engine %s native %s' % (name, diff[0][0], str(diff[0][1])[:80], str(diff[0][2])[:80]))
        else: ok += 1
    return ok, bad
