# C13 No memory error on any valid use (DESIGN.md section 4, C13)
# The memory model of the executor is on in every run; this check runs its own union of the scenario families
# with the payload obligations switched off and judges only memory events.
from .common import *
from . import gen, c01, c02, c04, c06, c08, c09, c11, c14, histcommon
ID = 'C13'
HARNESSES = ['h_c01.cpp', 'h_load.cpp', 'h_hist.cpp', 'h_c06.cpp', 'h_c09.cpp', 'h_c11.cpp']
LEVEL = 'model_checking'
BUDGET = {'quick': 290, 'thorough': 6000}
BOUNDS = {'quick': 'load-then-print of a file whose header event count / key-label words are free 16-bit values; union of: C01 build->write->load configurations, C04 load->save->load->save on every C02 layout variant, all API histories of depth 2 from 4 start states ending with print(), write, reload and destruction, C06/C08 frame-store families, C09 tree edits, C11 look-ups with free indices and names, C14 double saves; monitored on every path: out-of-bounds and use-after-free at object granularity (4 KiB red zones, no address reuse), invalid/double free, allocator mismatch (new[] vs delete), libstdc++ container assertions (index, empty front/back, null shared_ptr), calls through dead objects',
          'thorough': 'the thorough sets of the same families; histories of depth 2 from all six start states with the print+save+reload epilogue, and of depth 3 without it'}
OUTSIDE = 'damaged input files (C16); leaks are counted, not failed on; uninitialised reads that are not observable (C14/C19 judge observable ones)'
ASSUMPTIONS = ['-D_GLIBCXX_ASSERTIONS turns libstdc++ precondition violations (operator[] out of range, front() on empty, * on null shared_ptr) into calls the executor sees; they do not change valid executions']
RULE = 'one evaluation = one finished symbolic path; every path is judged (fatal end or recoverable memory event); non-trivial = symbolic payload or a forked choice'
MEM_EVENTS = ('mismatched-deallocation',)

def jobs(tier, seed):
    out = []
    for j in [x for x in c01.jobs(tier, seed) if x.get('name') != 'hist']:
        if j['cfg']['ex_group'] == 1 and j['cfg']['ex_nlen'] >= 3: j = dict(j, cfg=dict(j['cfg'], concname=1))      # (a long FREE name against the 8 names of POINT costs 20-80 s and is C01's subject)
        if j['cfg']['pad'] < 0 or j['cfg']['pad'] % 64 == 0: out.append(dict(j, family='build-save-load'))
    for j in c04.jobs(tier, seed):
        if tier == 'quick' and j['name'] in ('labels_more', 'desc255'): continue
        if j['name'] == 'align' and j['opts']['extras'][0]['desc_len'] % 32 != 31: continue      # the alignment sweep is C04's subject; keep the 255-character cases
        out.append(dict(j, family='load-save-load'))
    for j in histcommon.hist_jobs('quick', seed, finish=1, extra_starts=(8,)):
        if j['cfg']['start'] == 8: j = dict(j, cfg=dict(j['cfg'], finish=0))     # (lists longer than the counts: memory safety of the edits themselves)
        # quick: the populated start state with the print+save+reload epilogue, the fresh, fewer-labels and padded-lists ones without it (the epilogue is 5/6 of
        # the cost of a history); the other start states are C05/C07/C10's daily runs (same memory monitors, no epilogue)
        if tier == 'quick' and j['cfg']['start'] in (1, 3, 5, 6): continue
        if tier == 'quick' and j['cfg']['start'] in (0, 4): j = dict(j, cfg=dict(j['cfg'], finish=0))
        out.append(dict(j, family='history'))
    if tier == 'thorough':
        # depth 3 without the print/save/reload epilogue (it is 3/4 of the cost of a history; the epilogue runs on every depth-2 history above)
        for j in histcommon.hist_jobs('thorough', seed, finish=0): out.append(dict(j, family='history'))
    for j in c06.jobs(tier, seed):
        # quick: four representative shapes of C06's complete shape sweep (C06 itself runs them all with the same memory monitors)
        if tier == 'quick' and j['entry'] == 'h_c06' and (j['cfg']['P'], j['cfg']['C'], j['cfg']['S']) not in ((2, 1, 2), (1, 2, 2), (0, 2, 1), (2, 0, 1)): continue
        out.append(dict(j, family='frame-store'))
    for j in c08.jobs(tier, seed): out.append(dict(j, family='aliasing'))
    for j in c09.jobs(tier, seed):
        if j['name'] == 'tree' and (tier != 'quick' or j['forced'][0] in (0, 2, 7)): out.append(dict(j, family='tree-edits'))      # (quick: add with a free name, new group, own parameter into a new group; the rest is C09's daily run)
    for j in c11.jobs(tier, seed): out.append(dict(j, family='look-ups'))
    # a loaded object is printed whatever its header declares: the header words the printer may use as bounds are FREE (event count, key-label words)
    for nm, offs in (('header.nb_events', [300, 301]), ('header.key_label', [294, 295]), ('header.first_block_key_label', [296, 297]), ('header.four_char', [298, 299])):
        out.append({'entry': 'h_load_print', 'harness': 'h_load.cpp', 'name': 'load-print', 'family': 'load-print', 'field': nm, 'offs': offs, 'cfg': {}})
    for j in c14.jobs(tier, seed):
        if j['name'] == 'api-built' and j['cfg']['P'] == 2: out.append(dict(j, family='double-save'))
    return out

def run_job(engine, job):
    eng = engine('O1')
    res = new_result(); q0 = eng.sc.queries; t0 = eng.sc.time
    files = None; assume = None; fam = job['family']
    if fam == 'load-save-load':
        S, c, lay, cells = c02.build_file(job); files = {'in.c3d': gen.to_engine_cells(cells)}; assume = S.cons
    elif fam == 'history' and job['cfg'].get('start') in (3, 4, 5, 6, 8):
        S, cells = histcommon.start_file(fewer=job['cfg']['start'] == 4, empty_analog=job['cfg']['start'] == 5, deviating_lists=job['cfg']['start'] == 6, pad3=job['cfg']['start'] == 8); files = {'in.c3d': gen.to_engine_cells(cells)}; assume = S.cons
    elif fam == 'load-print':
        from . import c16
        cells = list(c16.base_file('full'))
        for o in job['offs']: cells[o] = z3.BitVec('b%d' % o, 8)
        files = {'in.c3d': gen.to_engine_cells(cells)}
    elif fam == 'tree-edits' and job['cfg'].get('start') == 2:
        S, cells = c09.dup_group_file(); files = {'in.c3d': gen.to_engine_cells(cells)}; assume = S.cons
    elif fam == 'tree-edits' and job['cfg'].get('start') == 1:
        S, cells = histcommon.start_file(); files = {'in.c3d': gen.to_engine_cells(cells)}; assume = S.cons
    elif fam == 'look-ups' and ((job['entry'] == 'h_c11_pos' and job['cfg']['kind'] >= 6) or (job['entry'] == 'h_c11_misc' and job['cfg']['what'] == 0 and job['cfg']['type'] == 1)):
        S, fc, cells = c11.event_file(); files = {'in.c3d': gen.to_engine_cells(cells)}; assume = S.cons
    paths = api.run_fn(eng, job['entry'], cfg=job.get('cfg'), files=files, assume=assume, forced_choices=job.get('forced'), wall=250, maxsteps=60_000_000)
    for r in paths:
        add_path(res, r)
        if r.kind == 'TIMEOUT': res['inconclusive'].append('%s %s: %s' % (fam, job.get('name'), r.info)); continue
        res['obligations'] += 1
        hist = ''
        if r.st is not None and r.st.choices: hist = ' history: ' + ' ; '.join(histcommon.history_of(r.st)) if fam == 'history' else ' choices %s' % [v for _, v in r.st.choices]
        bad = []
        if r.kind in ('memerr', 'abort', 'ub'): bad.append((end_locus(r), describe_end(r)))
        elif r.kind in ('unsupported', 'inconclusive', 'budget', 'resource'):
            res['inconclusive'].append('%s %s%s: %s' % (fam, job.get('name'), hist, describe_end(r))); continue
        elif r.kind == 'uncaught':
            # an exception escaping a harness that does not expect one: not a memory matter, but the path was not judged to its end
            res['inconclusive'].append('%s %s%s: uncaught %s' % (fam, job.get('name'), hist, r.info)); continue
        seen = set()
        for e in r.st.events:
            if e[0] in MEM_EVENTS and (e[0], e[1], e[2]) not in seen:
                seen.add((e[0], e[1], e[2])); bad.append(('%s@%s' % (e[0], short_fn(e[2])), '%s: %s in %s' % (e[0], e[1], short_fn(e[2]))))
        if not bad: res['discharged'] += 1; continue
        m = eng.sc.check(r.st.pc)
        for locus, detail in bad:
            add_violation(res, '%s/%s/%s' % (ID, fam, locus), '%s %s%s: %s' % (fam, job.get('name'), hist, detail), replay_of(eng, r.st, m, job, files), 'memory')
        if res['sample'] is None: res['sample'] = {'family': fam, 'configuration': job.get('cfg'), 'path_end': r.kind}
    if res['sample'] is None and paths and paths[0].st is not None:
        res['sample'] = {'family': fam, 'configuration': job.get('cfg'), 'path_end': paths[0].kind, 'ir_steps': paths[0].st.nsteps, 'live_heap_bytes_at_exit': paths[0].st.live_heap}
    res['solver_queries'] += eng.sc.queries - q0; res['solver_s'] = eng.sc.time - t0
    res['functions'] = sorted(f for f in eng.fn_executed if 'ezc3d' in f)
    return res

def native_confirm(nat, v):
    """replay under AddressSanitizer + UBSan with _GLIBCXX_ASSERTIONS (new[]/delete mismatch, bounds, container assertions)"""
    rp = v['replay']
    out = nat.run(rp, extra=('-fsanitize=address,undefined', '-fno-omit-frame-pointer', '-D_GLIBCXX_ASSERTIONS'), cxx='clang++-14',
                  env={'ASAN_OPTIONS': 'detect_leaks=0:exitcode=77:alloc_dealloc_mismatch=1:new_delete_type_mismatch=1', 'UBSAN_OPTIONS': 'halt_on_error=0'})
    if out['rc'] == 'timeout': return None
    return out['rc'] not in (0, 1) or 'AddressSanitizer' in out['stderr'] or 'Assertion' in out['stderr']
