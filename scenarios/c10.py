# C10 A refused call leaves the object unchanged (DESIGN.md section 4, C10)
from .histcommon import *
from . import c05, c09
ID = 'C10'
HARNESSES = ['h_hist.cpp', 'h_c09.cpp']
LEVEL = 'model_checking'
BUDGET = {'quick': 290, 'thorough': 5400}
BOUNDS = {'quick': 'an indexed store far beyond the end (index 32766, 32767, 65535; thorough: nine indices around 2^8, 2^15, 2^16) on the populated object: if refused, header, parameter tree, frame count and the old frames are unchanged; Parameter::set(data, dims) refused for inconsistent dimensions (every extent a free byte) on a parameter holding nothing / ints / strings / a locked float, for int, float and string data: the parameter must be unchanged; every throwing call in all histories of depth 2 (58 operations incl. partly-invalid arguments: second of two new points/channels duplicate, untyped parameter into a new group, unnamed parameter, unknown group; 7 start states (6 in the quick tier)); full dump before = full dump after decided by z3 (payload symbolic); object printed, saved and reloaded afterwards',
          'thorough': 'the same plus depth 3 (unchanged-after-refusal judged after every refused call; the save+reload epilogue only for the depth-2 histories)'}
OUTSIDE = 'refusals not in the alphabet; histories deeper than the bound'
ASSUMPTIONS = []
RULE = 'one evaluation = one history (path); non-trivial = it contains at least one refused call'

def per_step(k, before, call, after, st, sec):
    if call['call.outcome'] == 0: return []
    name = OP_NAMES.get(call['call.op'])
    O = compare(before, after, 'unchanged')
    for o in O:
        if o.bad is not False: o.detail = 'after refused %s: %s' % (name, o.detail)
    # (C05's agreement after the refusal follows from "unchanged" and C05 itself; it is not re-judged here)
    # and the object can still be saved and reloaded (last step only: the harness finishes with print/write/load)
    if 'final' in sec and ('call#%d' % (k + 2)) not in sec:
        f = dict(sec['final'])
        O.append(Obl('usable/save-reload', f.get('final.reload') != 1, 'after refused %s the object cannot be saved and reloaded (exception class %s)' % (name, f.get('final.class'))))
    return O

def set_jobs(tier):
    out = []
    for type_ in (2, 4, -1):
        for prior in (0, 1, 2, 3):                    # no value yet, ints, strings, locked float
            for ndata, ndims in ((0, 1), (1, 1), (1, 2), (2, 1), (2, 2), (3, 3)) if tier == 'quick' else [(a, b) for a in range(5) for b in range(1, 5)]:
                out.append({'entry': 'h_c09_set', 'harness': 'h_c09.cpp', 'name': 'refused-set', 'cfg': {'type': type_, 'ndata': ndata, 'ndims': ndims, 'slen': 2, 'prior': prior}})
    return out

def set_obligations(sec, job, st):
    if dict(sec['call'])['outcome'] == 0: return []
    B = c09.param_of(sec['before']); A = c09.param_of(sec['after'])
    return c09.param_eq('unchanged', B, A, 'parameter after a refused set() (%d values of type %d, %d free dimensions, prior content kind %d)' % (job['cfg']['ndata'], job['cfg']['type'], job['cfg']['ndims'], job['cfg']['prior']))

def far_jobs(tier):
    # the "extend" form of the indexed store around the capacity of the 16-bit frame count (the library may accept or refuse)
    return [{'entry': 'h_far', 'harness': 'h_hist.cpp', 'name': 'far-index', 'first': 1, 'cfg': {'start': 2, 'idx': i}}
            for i in ((32766, 32767, 65535) if tier == 'quick' else (255, 256, 32765, 32766, 32767, 32768, 65534, 65535, 65536))]

def far_obligations(sec, job, st):
    out = dict(sec['call'])['call.outcome']
    if out == 0:
        return compare(sec['given'], sec['stored'], 'far-index/stored')       # accepted: the frame is there (C06's statement, cheap to keep)
    O = compare(sec['before'], sec['after'], 'unchanged')
    for o in O:
        if o.bad is not False: o.detail = 'after a refused frame(f, %d) (exception class %d): %s' % (job['cfg']['idx'], out, o.detail)
    return O

def jobs(tier, seed):
    # a duplicate declaration on a frame-less object is in the alphabet here: if it is refused it must change nothing
    out = far_jobs(tier) + hist_jobs('quick', seed, finish=2, dupdeclare=1) + set_jobs(tier)
    if tier == 'thorough':
        # depth 3: "unchanged" is judged after every refused call; the save+reload epilogue (0.2 s per refused path, 3/4 of the
        # cost) is kept for the depth-2 histories above only
        out += hist_jobs('thorough', seed, finish=0, dupdeclare=1)
    return out
def run_job(engine, job):
    if job['name'] == 'refused-set': return std_run(engine, job, set_obligations, 'c09.end', ID, 'refused-set')
    if job['name'] == 'far-index': return std_run(engine, job, far_obligations, 'far.end', ID, 'far-index', wall=250, maxsteps=200_000_000)
    return explore(engine, job, ID, per_step)

def native_confirm(nat, v):
    out, sec = native_sections(nat, v['replay'])
    if out['rc'] != 0: return None
    locus = v['id'].split('/', 2)[-1].split('@')[0]
    if v['job'].get('name') == 'far-index': return any(o.bad is True and o.locus == locus for o in far_obligations(sec, v['job'], None))
    if v['job'].get('name') == 'refused-set': return any(o.bad is True and o.locus == locus for o in set_obligations(sec, v['job'], None))
    for k, (b, call, a) in enumerate(steps_of(sec)):
        for o in per_step(k, b, call, a, None, sec):
            if o.bad is True and o.locus == locus: return True
    return False
