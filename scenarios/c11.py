# C11 Look-ups return the right element or throw the documented error (DESIGN.md section 4, C11)
from .common import *
from . import gen
from oracle import c3dref, obsmodel
ID = 'C11'
HARNESSES = ['h_c11.cpp']
LEVEL = 'model_checking'
BUDGET = {'quick': 200, 'thorough': 1500}
BOUNDS = {'quick': 'containers (frames, points, sub-frames, channels, groups, parameters, 3 header event arrays) of size 0..3 accessed with a FREE 64-bit index (const and non-const accessors); by-name look-up in containers of 0..3 symbolic names (2 chars) with a symbolic query of 0..3 chars; typed getters 5 types x 4 getters; naming with 0..2 trailing spaces through constructor and setter',
          'thorough': 'sizes 0..5, names of 3 chars, queries 0..4 chars'}
OUTSIDE = 'containers larger than the bound; names longer than 3 (4) characters'
ASSUMPTIONS = ['names are printable non-space ASCII (case variants and any other byte pattern in that range are covered because characters are free)']
KIND = ['frame', 'point', 'subframe', 'channel', 'group', 'parameter', 'eventsTime', 'eventsDisplay', 'eventsLabel']
NKIND = ['point', 'channel', 'parameter', 'group']

def jobs(tier, seed):
    out = []
    top = 3 if tier == 'quick' else 5
    for kind in range(9):
        for n in (range(top + 1) if kind < 6 else (18,)):
            for nc in ((0, 1) if kind in (0, 1, 2, 3, 5) else (0,)):
                out.append({'entry': 'h_c11_pos', 'harness': 'h_c11.cpp', 'name': 'by-position-' + KIND[kind], 'cfg': {'kind': kind, 'n': n, 'nonconst': nc}})
    ln = 2 if tier == 'quick' else 3
    for kind in range(4):
        for n in range(top + 1 if tier == 'quick' else 4):
            for qlen in range(0, ln + 2):
                out.append({'entry': 'h_c11_name', 'harness': 'h_c11.cpp', 'name': 'by-name-' + NKIND[kind], 'cfg': {'kind': kind, 'n': n, 'len': ln, 'qlen': qlen}})
    for t in (0, 1, 2, 4, -1):
        for g in (1, 2, 4, -1):
            out.append({'entry': 'h_c11_misc', 'harness': 'h_c11.cpp', 'name': 'typed-getter', 'cfg': {'what': 0, 'type': t, 'get': g}})
    for point in (0, 1):
        for way in (0, 1):
            for k in (0, 1, 2):
                out.append({'entry': 'h_c11_misc', 'harness': 'h_c11.cpp', 'name': 'trailing-spaces', 'cfg': {'what': 1, 'way': way, 'spaces': k, 'point': point, 'len': 2}})
                out.append({'entry': 'h_c11_misc', 'harness': 'h_c11.cpp', 'name': 'trailing-spaces', 'cfg': {'what': 1, 'way': way, 'spaces': k, 'point': point, 'len': 0}})    # the name is only spaces
    return out

def event_file(concrete_seed=None):
    S = gen.Syms(concrete=concrete_seed is not None, seed=concrete_seed or 0)
    c = gen.make_content(S, P=1, C=0, sub=0, F=1, analog='empty', events=18, symbolic_meta=False, extras=[{'name': 'BYTES', 'type': 1, 'dims': [2]}])
    cells = c3dref.encode_with_data_start(c, c3dref.Layout())
    return S, c, cells

def pos_obligations(sec, job, st, eng=None, file_content=None):
    cfg = job['cfg']; kind = cfg['kind']
    ins = [v for l, v in sec['in'] if l == 'in']; idx = dict(sec['in'])['idx']
    res = dict(sec['result']); out = res['outcome']
    n = cfg['n'] + (3 if kind == 4 else 0)
    name = 'by-position/' + KIND[kind]
    O = []
    if kind >= 6:
        c = file_content
        ins = c.event_times if kind == 6 else [c3dref.join(c.event_flags[2 * i:2 * i + 2]) for i in range(9)] if kind == 7 else c.event_labels
        n = len(ins)
    # the path fixes whether idx < n (the accessor branched on it); decide with the solver which
    def implied(cnd):
        if type(cnd) is bool: return cnd
        return eng.sc.check(st.pc, z3.Not(cnd)) is None
    inr = (idx < n) if is_c(idx) else z3.ULT(idx, n)
    if out == 0:
        bad = (not inr) if type(inr) is bool else z3.Not(inr)
        O.append(Obl(name + '/returned-for-index-beyond-size', bad, 'accessor returned an element for an index that can be >= %d' % n))
        if 'payload' in res and n:
            if type(ins[0]) is list:
                k = idx if is_c(idx) else eng.concretize(st, idx, 1)[0]
                if k < n: O += obsmodel.eq_list(name + '/wrong-element', obsmodel.until_nul(ins[k]), res['payload'], 'element %d' % k)
            elif is_c(idx):
                if idx < n: O.append(Obl(name + '/wrong-element', neq(ins[idx], res['payload']), 'index %d returned another element\'s payload' % idx))
            else:
                w = max([x.size() for x in ins if not is_c(x)] + [res['payload'].size() if not is_c(res['payload']) else 32])
                exp = tobv(ins[n - 1], w)
                for k in range(n - 2, -1, -1): exp = z3.If(idx == k, tobv(ins[k], w), exp)
                O.append(Obl(name + '/wrong-element', neq(exp, res['payload']), 'the accessor returned another element\'s payload'))
    else:
        O.append(Obl(name + '/threw-for-valid-index', inr if type(inr) is bool else inr, 'accessor threw for an index that can be < %d' % n))
        O.append(Obl(name + '/wrong-exception-class', out != 3, 'exception class %d, documented out_of_range' % out))
    return O

def eqs(a, b):
    if len(a) != len(b): return False
    cs = []
    for x, y in zip(a, b):
        d = neq(x, y)
        if d is True: return False
        if d is not False: cs.append(z3.Not(d))
    return z3.And(*cs) if cs else True

def name_obligations(sec, job, st, eng=None):
    cfg = job['cfg']; kind = cfg['kind']; nm = 'by-name/' + NKIND[kind]
    names = [v for l, v in sec['in'] if l == 'name']; q = dict(sec['in'])['query']; ins = [v for l, v in sec['in'] if l == 'in']
    res = dict(sec['result']); out = res['outcome']
    base = 3 if kind == 3 else 0
    fixed = [list(b'POINT'), list(b'ANALOG'), list(b'FORCE_PLATFORM')] if kind == 3 else []
    allnames = fixed + names
    O = []
    match = [eqs(x, q) for x in allnames]
    anym = z3.Or(*[m for m in match if m is not False and m is not True]) if not any(m is True for m in match) else True
    if all(m is False for m in match): anym = False
    if out == 0:
        k = res['position']
        k = k if is_c(k) else eng.concretize(st, k, 1)[0]
        if k >= len(allnames): return [Obl(nm + '/position-out-of-range', True, 'look-up returned position %d of %d' % (k, len(allnames)))]
        m = match[k]
        O.append(Obl(nm + '/found-name-differs', (not m) if type(m) is bool else z3.Not(m), 'element %d returned but its name can differ from the query' % k))
        for j in range(k):
            O.append(Obl(nm + '/not-first-match', match[j] if type(match[j]) is bool else match[j], 'element %d returned although element %d can carry the same name' % (k, j)))
        if 'payload' in res and k >= base:
            # a stored element with the same name as an earlier one may have replaced it (groups/parameters) - the payload of
            # position k is the last input given under that name
            exp = ins[k - base]
            if exp is not None:
                O.append(Obl(nm + '/wrong-element', neq(exp, res['payload']), 'by-name look-up returned another element\'s payload'))
            O.append(Obl(nm + '/name-vs-position', neq(res['payload'], res['payload.pos']), 'look-up by name and by the returned position give different data'))
            O.append(Obl(nm + '/const-vs-nonconst', neq(res['payload'], res['payload.nc']), 'const and non-const by-name accessors give different data'))
    else:
        O.append(Obl(nm + '/threw-although-present', anym if type(anym) is bool else anym, 'look-up threw although a stored name can equal the query'))
        O.append(Obl(nm + '/wrong-exception-class', out != 2, 'exception class %d, documented invalid_argument' % out))
    return O

def misc_obligations(sec, job, st, eng=None):
    cfg = job['cfg']; res = dict(sec['result']); out = res['outcome']
    if cfg['what'] == 0:
        t, g = cfg['type'], cfg['get']
        if t == g: return [Obl('typed-getter/own-type-refused', out != 0, 'reading a %d-typed parameter as its own type threw class %d' % (t, out))]
        return [Obl('typed-getter/foreign-type-accepted', out == 0, 'reading a parameter of type %d with the getter of type %d returned %s values' % (t, g, res.get('n'))),
                Obl('typed-getter/wrong-exception-class', out not in (0, 2), 'class %d, documented invalid_argument' % out)]
    base = dict(sec['in'])['base']
    O = [Obl('trailing-spaces/lookup-by-trimmed-name', out != 0, 'element named with %d trailing spaces through the %s is not found under the trimmed name (class %d)' % (cfg['spaces'], 'constructor' if cfg['way'] == 0 else 'setter', out))]
    if 'stored' in sec:
        O += obsmodel.eq_list('trailing-spaces/stored-name', base, dict(sec['stored'])['name'], 'stored name after naming with %d trailing spaces through the %s' % (cfg['spaces'], 'constructor' if cfg['way'] == 0 else 'setter'))
    return O

def run_job(engine, job):
    eng = engine('O1')
    e = job['entry']; files = None; assume = None; fc = None
    if (e == 'h_c11_pos' and job['cfg']['kind'] >= 6) or (e == 'h_c11_misc' and job['cfg']['what'] == 0 and job['cfg']['type'] == 1):
        S, fc, cells = event_file(); files = {'in.c3d': gen.to_engine_cells(cells)}; assume = S.cons
    fn = {'h_c11_pos': lambda s, j, st: pos_obligations(s, j, st, eng, fc), 'h_c11_name': lambda s, j, st: name_obligations(s, j, st, eng), 'h_c11_misc': lambda s, j, st: misc_obligations(s, j, st, eng)}[e]
    return std_run(engine, job, fn, 'c11.end', ID, job['name'], files=files, assume=assume, fatal_as='violation')

def native_confirm(nat, v):
    out, sec = native_sections(nat, v['replay'])
    if out['rc'] != 0: return None
    job = v['job']; e = job['entry']; fc = None
    if e == 'h_c11_pos' and job['cfg']['kind'] >= 6:
        cells = list(bytes.fromhex(v['replay']['files']['in.c3d'])); D = c3dref.decode(cells)
        class FC: pass
        fc = FC(); fc.event_times = D['H']['event_times']; fc.event_flags = D['H']['event_flags']; fc.event_labels = D['H']['event_labels']
    try:
        obls = {'h_c11_pos': lambda: pos_obligations(sec, job, None, None, fc), 'h_c11_name': lambda: name_obligations(sec, job, None), 'h_c11_misc': lambda: misc_obligations(sec, job, None)}[e]()
    except KeyError: return None
    locus = v['id'].split('/', 2)[-1]
    return any(o.bad is True and o.locus == locus for o in obls)
