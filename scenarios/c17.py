# C17 Content at the format's limits survives; beyond them saving refuses (DESIGN.md section 4, C17)
from .common import *
from . import gen, c01, c02, c04
from oracle import c3dref
ID = 'C17'
HARNESSES = ['h_c01.cpp', 'h_load.cpp', 'h_hist.cpp']
LEVEL = 'model_checking'
BUDGET = {'quick': 290, 'thorough': 3400}
BOUNDS = {'quick': 'the frame-count limit through the API: one indexed store at index 32767 (32 768 frames, one beyond the limit; thorough: also 32 767 and 65 536 frames), saved and - if the save returns - reloaded, counts and POINT:FRAMES compared; API-built content at L-1, L, L+1 and a far value for: description 255, parameter/group name 127, dimension extent 255, string length 255, int16 extremes, 7 dimensions, 127 groups, 255 points, 255 channels; payload symbolic where it does not fix a loop bound. At or below L: the C01 equality; beyond L: write throws, or the saved file loads to the same content (same equality)',
          'thorough': 'plus 255 points, 255 channels, 255 parameter blocks (API) and reference-encoded files with 32767 frames, last frame 65535, 255 parameter blocks through load -> save -> load'}
OUTSIDE = 'more than 32767 frames through the API (hours in the interpreter); pairs of limits beyond those listed; 65535 points'
ASSUMPTIONS = ['long texts use a fixed character (their content is not the subject, their length is)']
LIM = {0: ('description', 255), 1: ('parameter-name', 127), 2: ('group-name', 127), 3: ('extent', 255), 4: ('string-length', 255), 5: ('int16', 32767), 6: ('dimensions', 7), 7: ('points', 255), 8: ('channels', 255), 9: ('parameter-blocks', 255), 10: ('groups', 127)}

def jobs(tier, seed):
    out = []
    def J(kind, v): out.append({'entry': 'h_c17', 'harness': 'h_c01.cpp', 'name': LIM[kind][0], 'cfg': {'kind': kind, 'value': v, 'obsfile': 0}, 'limit': LIM[kind][1]})
    for kind in (0, 1, 2, 3, 4):
        L = LIM[kind][1]
        for v in (L - 1, L, L + 1, L + 45, 2 * L + 2): J(kind, v)
    for v in (32766, 32767, 32768, 40000, 65535, 65536, 70000): J(5, v)
    for v in (6, 7, 8, 9): J(6, v)
    for v in (126, 127, 128, 129, 200): J(10, v)
    for kind in (7, 8):
        for v in ((255, 256) if tier == 'quick' else (254, 255, 256, 300)): J(kind, v)
    for v in (494, 496): J(9, v)       # 494 parameters fill 255 blocks, 496 need 256
    if tier == 'thorough':
        for v in (250, 490, 492, 520): J(9, v)       # 494 parameters fill 255 blocks, 496 need 256
        for nm, sh, kw in (('frames-32767', dict(P=0, C=1, sub=1, F=32767), {}), ('last-frame-65535', dict(P=1, C=0, sub=0, F=40), {'first': 65496, 'analog': 'empty'}),
                           ('blocks-255', dict(P=1, C=0, sub=0, F=1), {'analog': 'empty', 'extras': [{'name': 'BIGA', 'type': 1, 'dims': [255, 250]}, {'name': 'BIGB', 'type': 1, 'dims': [255, 255]}, {'name': 'BIGC', 'type': 1, 'dims': [10, 1]}]})):
            out.append({'entry': 'h_load', 'harness': 'h_load.cpp', 'name': nm, 'cfg': {'gens': 2, 'dump': 1, 'obsfiles': 0}, 'shape': sh, 'lay': {}, 'opts': dict(kw, symbolic_meta=False), 'file': True})
    # the frame-count limit through the API: ONE indexed store far beyond the end gives idx+1 frames (32 768 = one beyond the limit in
    # the quick tier: the unchanged tree refuses the save at once; at the limit the save/reload costs minutes in the interpreter -> thorough)
    for idx in ((32767,) if tier == 'quick' else (32766, 32767, 65535)):
        out.append({'entry': 'h_far_save', 'harness': 'h_hist.cpp', 'name': 'frames-through-api', 'first': 1, 'cfg': {'idx': idx}, 'limit': 32767})
    return out

def far_obligations(sec, job, st):
    o = dict(sec['outcome']); n = job['cfg']['idx'] + 1; within = n <= job['limit']
    tag = '' if within else '@beyond-limit'
    if not o['wrote']: return [Obl('frames-through-api/refused-within-capacity', within, 'saving %d frames threw although it is within the capacity of the format' % n)]
    if not o['loaded']: return [Obl('frames-through-api/saved-file-does-not-load' + tag, True, 'saving %d frames returned normally but the file cannot be loaded' % n)]
    O = compare(sec['mem'], sec['file'], 'frames-through-api/counts')
    for x in O:
        x.locus += tag
        if x.bad is not False: x.detail = '%d frames saved and reloaded: %s' % (n, x.detail)
    return O

def obligations(sec, job, st):
    o = dict(sec['outcome']); L = job['limit']; v = job['cfg']['value']
    within = v <= L
    what = '%s %d (limit %d)' % (job['name'], v, L)
    if not o['wrote']:
        return [Obl('%s/refused-within-capacity' % job['name'], within, 'saving %s threw although it is within the capacity of the format' % what)]
    if not o.get('loaded'):
        return [Obl('%s/saved-file-does-not-load' % job['name'] + ('' if within else '@beyond-limit'), True, 'saving %s returned normally but the file cannot be loaded' % what)]
    O = c01.obligations(sec, dict(job, cfg=dict(job['cfg'], C=1)), st)
    for x in O:
        x.locus = '%s/%s%s' % (job['name'], x.locus, '' if within else '@beyond-limit')
        if x.bad is not False: x.detail = '%s: %s' % (what, x.detail)
    return O

def run_job(engine, job):
    if job['name'] == 'frames-through-api': return std_run(engine, job, far_obligations, 'farsave.end', ID, 'api', wall=1500, maxsteps=1_000_000_000)
    if job.get('file'):
        S, c, lay, cells = c02.build_file(job, concrete_seed=5)
        files = {'in.c3d': gen.to_engine_cells(cells)}
        def ob(sec, job_, st):
            O = c04.obligations(sec, job_, st)
            for x in O: x.locus = '%s/%s' % (job['name'], x.locus)
            return O
        return std_run(engine, job, ob, 'end', ID, 'file', files=files, fatal_as='violation', wall=1500, maxsteps=400_000_000)
    return std_run(engine, job, obligations, 'c17.end', ID, 'api', wall=1500, maxsteps=400_000_000)

def native_confirm(nat, v):
    if v['job'].get('name') == 'frames-through-api':
        out, sec = native_sections(nat, v['replay'], timeout=300)
        if out['rc'] != 0: return None
        locus = v['id'].split('/', 2)[-1]
        return any(o.bad is True and o.locus == locus for o in far_obligations(sec, v['job'], None))
    out, sec = native_sections(nat, v['replay'], timeout=300)
    if out['rc'] != 0: return None
    try: obls = (obligations if not v['job'].get('file') else c04.obligations)(sec, v['job'], None)
    except KeyError: return None
    locus = v['id'].split('/', 2)[-1]
    return any(o.bad is True and (o.locus == locus or ('%s/%s' % (v['job']['name'], o.locus)) == locus) for o in obls)
