# C09 Parameter and group edits change exactly what was asked (DESIGN.md section 4, C09)
from .common import *
from . import gen, histcommon
from oracle import obsmodel, c3dref
ID = 'C09'
HARNESSES = ['h_c09.cpp']
LEVEL = 'model_checking'
BUDGET = {'quick': 280, 'thorough': 2400}
BOUNDS = {'quick': '(a) Parameter::set(data, dims) for int/float/string with 0..4 elements and 0..7 dimensions, EVERY extent a free 8-bit variable (0..255): accepted <=> element count = product of extents, decided by z3 against a 64-bit product; refusal leaves the parameter unchanged. (b) all sequences of 2 tree edits (add with symbolic name that may equal an existing one, replace with another type, new group, a parameter of the object itself copied into a new group, lock/unlock) on a fresh object, on a loaded object and on an object loaded from a file with two groups of the same name; whole tree compared',
          'thorough': '(a) 0..8 elements; (b) sequences of 3 edits'}
OUTSIDE = 'extents above 255 (outside the format); replacing the mandatory POINT/ANALOG parameters the updaters read (their type is a precondition of every other call)'
ASSUMPTIONS = ['the oracle product is computed in 64-bit bit-vectors, exact because 255^7 < 2^56']

def jobs(tier, seed):
    out = []
    nd = 4 if tier == 'quick' else 8
    for type_ in (2, 4, -1):
        for ndata in range(nd + 1):
            for ndims in range(8):
                for prior in ((0, 1) if tier == 'quick' else (0, 1, 2, 3)):
                    if tier == 'quick' and ndims > 4 and ndata not in (0, 1, nd): continue
                    out.append({'entry': 'h_c09_set', 'harness': 'h_c09.cpp', 'name': 'set', 'cfg': {'type': type_, 'ndata': ndata, 'ndims': ndims, 'slen': 2, 'prior': prior}})
    depth = 2 if tier == 'quick' else 3
    for start in (0, 1, 2):
        for op in range(8):
            for kind in (0, 1, 2):
                for nlen in ((3, 4, 7, 10) if kind == 0 else (4,)) if tier == 'quick' else (3, 4, 6, 7, 10):
                    if op != 0 and (kind, nlen) != (0, 4): continue
                    if depth >= 3:
                        for op2 in range(8):      # split the work: the first two operations are fixed per job
                            if op2 == 0 and op == 0 and nlen > 4: continue
                            out.append({'entry': 'h_c09_tree', 'harness': 'h_c09.cpp', 'name': 'tree', 'cfg': {'depth': depth, 'start': start, 'kind': kind, 'nlen': nlen}, 'forced': [op, op2]})
                    else:
                        out.append({'entry': 'h_c09_tree', 'harness': 'h_c09.cpp', 'name': 'tree', 'cfg': {'depth': depth, 'start': start, 'kind': kind, 'nlen': nlen}, 'forced': [op]})
    return out

def prod64(dims):
    p = z3.BitVecVal(1, 64)
    for d in dims: p = p * (z3.BitVecVal(d, 64) if is_c(d) else (z3.ZeroExt(64 - d.size(), d) if d.size() < 64 else d))
    return p

def param_of(sec): 
    M = obsmodel.parse_dump([('grp.name', [])] + list(sec)); return M['groups'][0]['params'][0]

def param_eq(prefix, exp, got, detail):
    O = []
    def o(n, a, b): O.append(Obl('%s/%s' % (prefix, n), neq(a, b), '%s: %s' % (detail, n)))
    O += obsmodel.eq_list(prefix + '/name', exp['name'], got['name'], detail + ': name')
    O += obsmodel.eq_list(prefix + '/desc', exp['desc'], got['desc'], detail + ': description')
    o('locked', exp['locked'], got['locked']); o('type', exp['type'] & 0xffffffffffffffff if is_c(exp['type']) else exp['type'], got['type'] & 0xffffffffffffffff if is_c(got['type']) else got['type'])
    if len(exp['dims']) != len(got['dims']): O.append(Obl(prefix + '/ndim', True, '%s: %d dimensions, expected %d' % (detail, len(got['dims']), len(exp['dims'])))); return O
    for a, b in zip(exp['dims'], got['dims']): o('dim', a, b)
    if len(exp['values']) != len(got['values']): O.append(Obl(prefix + '/nvalues', True, '%s: %d values, expected %d' % (detail, len(got['values']), len(exp['values'])))); return O
    for k, (a, b) in enumerate(zip(exp['values'], got['values'])):
        if type(a) is list: O += obsmodel.eq_list(prefix + '/value', a, b, '%s: string value %d' % (detail, k))
        else: o('value', a, b)
    return O

def set_obligations(sec, job, st, eng=None):
    cfg = job['cfg']; out = dict(sec['call'])['outcome']
    dims = [v for l, v in sec['dims']]; given = [v for l, v in sec['given']]
    B = param_of(sec['before']); A = param_of(sec['after'])
    O = []
    n = cfg['ndata']
    if cfg['ndims'] == 0: should = True
    else:
        should = simp(prod64(dims) == n)
        if is_c(should): should = bool(should)
    if out == 0:
        # accepted: under the path condition the shape must be consistent
        bad = (not should) if type(should) is bool else z3.Not(should)
        O.append(Obl('set/accepted-inconsistent-shape', bad, 'set() accepted %d values with dimensions whose product differs' % n))
        exp = {'name': B['name'], 'desc': B['desc'], 'locked': B['locked'], 'type': cfg['type'] & 0xffffffffffffffff, 'values': given}
        ed = list(dims) if cfg['ndims'] else [n]
        if cfg['type'] == -1:
            ed = [max([len(x) for x in given] + [0])] + ed
        exp['dims'] = ed
        O += param_eq('set/result', exp, A, 'parameter after an accepted set()')
    else:
        bad = should if type(should) is bool else should
        O.append(Obl('set/refused-consistent-shape', bad, 'set() refused %d values although the product of the dimensions equals %d' % (n, n)))
        O.append(Obl('set/refusal-class', out != 5, 'set() refused with exception class %d, documented: range_error' % out))
        O += param_eq('set/unchanged-after-refusal', B, A, 'parameter after a refused set()')
    return O

def tree_obligations(sec, job, st, eng=None):
    O = []
    steps = []; k = 1
    while True:
        sfx = '' if k == 1 else '#%d' % k
        if 'call' + sfx not in sec: break
        steps.append(sfx); k += 1
    # 'given' and 'lookup' sections only exist for add ops; number them in order of appearance
    gi = 0
    for sfx in steps:
        op = dict(sec['call' + sfx])['op']; out = dict(sec['outcome' + sfx])['outcome']
        grpname = dict(sec['call' + sfx]).get('group')
        B = obsmodel.parse_dump(sec['before' + sfx])['groups']; A = obsmodel.parse_dump(sec['after' + sfx])['groups']
        name = {0: 'parameter(FORCE_PLATFORM, symbolic name)', 1: 'parameter(FORCE_PLATFORM, ZERO)', 2: 'parameter(new group)', 3: 'parameter(new group) again', 4: 'lockGroup(FORCE_PLATFORM)', 5: 'unlockGroup(FORCE_PLATFORM)', 6: 'lockGroup(ANALOG)', 7: 'parameter(new group, a parameter of this object)'}[op]
        if op in (4, 5, 6):
            target = ('EXTRA' if job['cfg']['start'] == 2 else 'FORCE_PLATFORM') if op in (4, 5) else 'ANALOG'
            if not any(obsmodel.cstr(g['name']) == target for g in B):
                # documented: std::invalid_argument for a group that does not exist; nothing changes
                O.append(Obl('tree/unknown-group-class', out != 2, '%s on an object without that group: outcome class %d, documented invalid_argument' % (name, out)))
                O.append(Obl('tree/group-count', len(A) != len(B), '%s changes the number of groups' % name))
                for i in range(min(len(A), len(B))): O += group_eq('tree/others-unchanged', B[i], A[i], 'group %d after refused %s' % (i, name))
                continue
        O.append(Obl('tree/call-accepted', out != 0, '%s threw exception class %d' % (name, out)))
        if out != 0: continue
        if op <= 3 or op == 7:
            gsfx = '' if gi == 0 else '#%d' % (gi + 1); gi += 1
            G = param_of(sec['given' + gsfx]); L = param_of(sec['lookup' + gsfx])
            O += param_eq('tree/lookup-returns-given', G, L, 'look-up after %s' % name)
            gname = bytes(grpname).decode()
            bi = [i for i, g in enumerate(B) if obsmodel.cstr(g['name']) == gname]
            if not bi:
                # group created at the end
                O.append(Obl('tree/group-created', len(A) != len(B) + 1 or obsmodel.cstr(A[-1]['name']) != gname, '%s: group not appended' % name))
                if len(A) == len(B) + 1:
                    O.append(Obl('tree/group-created', len(A[-1]['params']) != 1, 'new group holds %d parameters' % len(A[-1]['params'])))
                    if len(A[-1]['params']) == 1: O += param_eq('tree/target', G, A[-1]['params'][0], 'parameter in the new group')
                    for i in range(len(B)): O += group_eq('tree/others-unchanged', B[i], A[i], 'group %d after %s' % (i, name))
                continue
            gi_ = bi[0]
            O.append(Obl('tree/group-count', len(A) != len(B), '%s changes the number of groups' % name))
            for i in range(min(len(A), len(B))):
                if i != gi_: O += group_eq('tree/others-unchanged', B[i], A[i], 'group %d after %s' % (i, name))
            bp = B[gi_]['params']; ap = A[gi_]['params']
            O.append(Obl('tree/group-flags', neq(B[gi_]['locked'], A[gi_]['locked']), 'lock flag of the group changed by %s' % name))
            if len(ap) == len(bp):
                # replaced in place: exactly one position differs, it is the first whose name equals the new name
                same = [eq_cells(p['name'], G['name']) for p in bp]
                # position k replaced <=> names equal; find k under the path condition: the first index whose name can equal
                def holds(cnd):
                    if type(cnd) is bool: return cnd
                    return eng.sc.check(st.pc, z3.Not(cnd)) is None
                cand = [i for i, s_ in enumerate(same) if s_ is not False and holds(s_)]      # names equal on this path
                if not cand: O.append(Obl('tree/replace-without-match', True, '%s replaced a parameter although no name matches' % name)); continue
                k0 = cand[0]
                O.append(Obl('tree/replace-first-match', (not same[k0]) if type(same[k0]) is bool else z3.Not(same[k0]), '%s: parameter count unchanged but position %d does not carry the new name' % (name, k0)))
                for i in range(len(bp)):
                    if i == k0: O += param_eq('tree/target', G, ap[i], 'replaced parameter at position %d' % i)
                    else: O += param_eq('tree/others-unchanged', bp[i], ap[i], 'parameter %d of the group after %s' % (i, name))
            elif len(ap) == len(bp) + 1:
                for i in range(len(bp)):
                    O += param_eq('tree/others-unchanged', bp[i], ap[i], 'parameter %d of the group after %s' % (i, name))
                    s_ = eq_cells(bp[i]['name'], G['name'])
                    O.append(Obl('tree/append-despite-same-name', s_ if type(s_) is bool else s_, '%s appended the parameter although parameter %d has the same name' % (name, i)))
                O += param_eq('tree/target', G, ap[-1], 'appended parameter')
            else:
                O.append(Obl('tree/param-count', True, '%s: %d parameters before, %d after' % (name, len(bp), len(ap))))
        else:
            target = ('EXTRA' if job['cfg']['start'] == 2 else 'FORCE_PLATFORM') if op in (4, 5) else 'ANALOG'
            O.append(Obl('tree/group-count', len(A) != len(B), '%s changes the number of groups' % name))
            first = [i for i in range(len(B)) if obsmodel.cstr(B[i]['name']) == target][:1]
            for i in range(min(len(A), len(B))):
                if i in first:
                    O.append(Obl('tree/lock-flag', A[i]['locked'] != (0 if op == 5 else 1), '%s: flag is %s' % (name, A[i]['locked'])))
                    O += group_eq('tree/others-unchanged', B[i], A[i], 'group %d after %s' % (i, name), skip_lock=True)
                else: O += group_eq('tree/others-unchanged', B[i], A[i], 'group %d after %s' % (i, name))
    return O

def eq_cells(a, b):
    """python bool / z3 Bool: cell lists equal"""
    if len(a) != len(b): return False
    cs = []
    for x, y in zip(a, b):
        n = neq(x, y)
        if n is True: return False
        if n is not False: cs.append(z3.Not(n))
    return z3.And(*cs) if cs else True

def group_eq(prefix, b, a, detail, skip_lock=False):
    O = obsmodel.eq_list(prefix + '/grp.name', b['name'], a['name'], detail + ': name') + obsmodel.eq_list(prefix + '/grp.desc', b['desc'], a['desc'], detail + ': description')
    if not skip_lock: O.append(Obl(prefix + '/grp.locked', neq(b['locked'], a['locked']), detail + ': lock flag'))
    if len(b['params']) != len(a['params']): O.append(Obl(prefix + '/grp.nbParameters', True, '%s: %d parameters before, %d after' % (detail, len(b['params']), len(a['params'])))); return O
    for i, (x, y) in enumerate(zip(b['params'], a['params'])): O += param_eq(prefix, x, y, '%s parameter %d' % (detail, i))
    return O

def dup_group_file():
    """a file that declares two groups with the same name under different ids (the reader accepts it; look-ups resolve to the first)"""
    S = gen.Syms()
    c = gen.make_content(S, P=1, C=0, sub=0, F=1, analog='empty', symbolic_meta=False, extras=[{'name': 'INTS', 'type': 2, 'dims': [2]}, {'name': 'REALS', 'type': 4, 'dims': [1]}])
    c.groups.append(c3dref.Group(7, 'EXTRA', [], False, [c3dref.Param('OTHER', 2, [1], [S.bv('oi', 16)], [], False), c3dref.Param('INTS', 2, [1], [S.bv('oi', 16)], [], False)]))
    return S, c3dref.encode_with_data_start(c, c3dref.Layout())

def run_job(engine, job):
    if job['name'] == 'set': return std_run(engine, job, set_obligations, 'c09.end', ID, 'set')
    files = None; assume = None
    if job['cfg']['start'] == 1:
        S, cells = histcommon.start_file(); files = {'in.c3d': gen.to_engine_cells(cells)}; assume = S.cons
    elif job['cfg']['start'] == 2:
        S, cells = dup_group_file(); files = {'in.c3d': gen.to_engine_cells(cells)}; assume = S.cons
    eng = engine('O1')
    return std_run(engine, job, lambda sec, job, st: tree_obligations(sec, job, st, eng), 'c09.end', ID, 'tree', files=files, assume=assume, forced_choices=job['forced'], fatal_as='violation', wall=200 if job['cfg']['depth'] <= 2 else 560)

def native_confirm(nat, v):
    out, sec = native_sections(nat, v['replay'])
    if out['rc'] != 0: return None
    fn = set_obligations if v['job']['name'] == 'set' else tree_obligations
    try: obls = fn(sec, v['job'], None)
    except KeyError: return None
    locus = v['id'].split('/', 2)[-1]
    return any(o.bad is True and o.locus == locus for o in obls)
