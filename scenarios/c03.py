# C03 Saved files are valid, self-consistent C3D for any other reader (DESIGN.md section 4, C03)
from .common import *
from . import c01
from oracle import c3dref, obsmodel
ID = 'C03'
HARNESSES = ['h_c01.cpp', 'h_load.cpp', 'h_hist.cpp']
LEVEL = 'model_checking'
BUDGET = {'quick': 280, 'thorough': 3000}
BOUNDS = {'quick': 'objects LOADED from reference-encoded files in every vendor layout of C02 (parameter section in block 3, leading zero bytes, zeroed prologue, sparse / out-of-order ids, reversed and parameters-first record order, events, fewer/more labels) and saved unchanged; objects built through the API (C01 quick shapes/orders/extra parameters), objects reached by every history of 2 public calls (58-operation alphabet) from the declared and the populated start state (thorough: also fresh, loaded and loaded-with-deviating-lists), and loaded-then-edited objects; parameter-section length steered through ALL 512 residues modulo the block size (520 consecutive lengths); plus objects whose parameter section fills 254 and 255 blocks (data start block 256/257); payload symbolic (data floats free, so the byte following the parameter section is any value)',
          'thorough': 'two full sweeps of the residues (1040 lengths, sections of 2-4 blocks); C01 thorough shapes'}
OUTSIDE = 'histories deeper than load + 2 edits; parameter sections longer than 3 blocks'
ASSUMPTIONS = ['the reference decoder oracle/c3dref.py follows only the file\'s own pointers (header byte 1, POINT:DATA_START, next-offsets)']

def jobs(tier, seed):
    out = []
    for j in [x for x in c01.jobs(tier, seed) if x.get('name') != 'hist']:
        if j['cfg']['symnames']: continue
        cfg = dict(j['cfg'])
        if cfg['pad'] >= 0: continue
        out.append({'entry': 'h_save', 'harness': 'h_c01.cpp', 'cfg': cfg, 'name': 'api'})
    # alignment residues: find the pad values that hit each residue of the parameter-section end modulo 512.
    # the section length for pad = L grows by exactly 1 per unit, so consecutive L cover consecutive residues.
    # one save costs 0.2 s, so every residue is affordable on every change (520 consecutive lengths cover all 512 residues)
    for L in range(0, 520 if tier == 'quick' else 1040):
        out.append({'entry': 'h_save', 'harness': 'h_c01.cpp', 'cfg': c01.base(P=1, C=1, S=1, F=1, order=L % 3, pad=L), 'name': 'align', 'want_residue': True})
    # parameter sections of 253..255 blocks (the data then start at block 255..257: the block numbers no longer fit one byte)
    for v in ((492, 494) if tier == 'quick' else (488, 490, 492, 494)):
        out.append({'entry': 'h_c17', 'harness': 'h_c01.cpp', 'cfg': {'kind': 9, 'value': v, 'obsfile': 1}, 'name': 'many-blocks'})
    # objects reached through a history of public calls (58-operation alphabet), then saved
    from . import histcommon
    for j in histcommon.hist_jobs('quick', seed, finish=4, extra_starts=(3,)):          # depth 2 in both tiers (a save and a full structural decode end every path)
        if j['cfg']['start'] in ((1, 2) if tier == 'quick' else (0, 1, 2, 3, 6)): out.append(j)
    # objects LOADED from files in the vendor layouts (parameter section not in block 2, leading zero bytes, zeroed prologue, sparse
    # or out-of-order group ids, reversed records, events, fewer/more labels), then saved: the saved file must stand on its own pointers
    from . import c02
    for j in c02.jobs(tier, seed):
        if is_sweep(j) or str(j['name']).startswith('shape') or j['name'] in ('desc128', 'desc255', 'no_frames'): continue
        j = dict(j); j['cfg'] = {}; j['entry'] = 'h_resave'; j['lname'] = j['name']; j['name'] = 'loaded'
        out.append(j)
    return out

def struct_obligations(cells, M, job, st, prefix):
    """decode the saved bytes with the reference decoder; structural rules are concrete obligations"""
    O = []
    try:
        D = c3dref.decode(cells)
    except (c3dref.DecodeError, IndexError) as e:
        return [Obl(prefix + '/struct/decodable', True, 'reference decoder cannot follow the saved file: %s' % e)], None, None
    for name, ok, detail in D['checks']:
        O.append(Obl('%s/struct/%s' % (prefix, name), not ok, detail))
    for name, bad, detail in D['sym_checks']:
        O.append(Obl('%s/struct/%s' % (prefix, name), bad, detail))
    H = D['H']
    def o(name, bad, detail): O.append(Obl('%s/struct/%s' % (prefix, name), bad, detail))
    o('header.param_block', H['param_block'] != 2 and False, '')
    # header counts agree with the parameters stored in the same file
    def val(g, p, k=0):
        q = D['par'](g, p)
        return q['values'][k] if q and q['values'] else None
    used = val('POINT', 'USED'); frames = val('POINT', 'FRAMES'); rate = val('POINT', 'RATE'); aused = val('ANALOG', 'USED')
    o('point.used_present', used is None, 'POINT:USED missing in the saved file')
    if used is not None: o('header.points_vs_used', neq(H['nb_points'], used), 'header word 2 (points) differs from POINT:USED')
    if frames is not None and is_c(H['first']) and is_c(H['last']) and is_c(frames):
        nf = (H['last'] - H['first'] + 1) & 0xffff
        o('header.frames_vs_point_frames', nf != (frames & 0xffff) and not (frames == 0 and ((used == 0 and (aused or 0) == 0) or (H['nb_points'] == 0 and H['analog_total'] == 0))), 'header frame range %s..%s (count %d) vs POINT:FRAMES %s' % (H['first'], H['last'], nf, frames))
    if rate is not None: o('header.rate_vs_point_rate', neq(H['rate'], rate), 'header frame rate differs from POINT:RATE')
    if aused is not None and is_c(H['sub']) and is_c(H['analog_total']) and is_c(aused):
        if H['sub'] >= 1:
            o('header.analog_total', H['analog_total'] != aused * H['sub'], 'header word 3 = %d but ANALOG:USED x samples-per-frame = %d x %d' % (H['analog_total'], aused, H['sub']))
    o('header.float_marker', not (is_c(H['scale']) and (H['scale'] >> 31) == 1), 'header scale factor is not negative (float marker): %s' % (hex(H['scale']) if is_c(H['scale']) else H['scale']))
    o('header.scale_is_float', not (is_c(H['scale']) and H['scale'] & 0x7f800000 != 0x7f800000), 'header scale factor word is not a finite float: %s' % (hex(H['scale']) if is_c(H['scale']) else H['scale']))
    # names upper-case, lock flag as sign
    for gid, g in D['groups'].items():
        for ch in g['name']:
            if is_c(ch): o('names.upper', 97 <= ch <= 122, 'group name holds a lower-case character')
            else: o('names.upper', z3.And(z3.UGE(ch, 97), z3.ULE(ch, 122)), 'group name may hold a lower-case character')
    for p in D['params']:
        for ch in p['name']:
            if is_c(ch): o('names.upper', 97 <= ch <= 122, 'parameter name holds a lower-case character')
            else: o('names.upper', z3.And(z3.UGE(ch, 97), z3.ULE(ch, 122)), 'parameter name may hold a lower-case character')
    # data section: exactly frames x (4 x points + channels x sub) floats, at the block POINT:DATA_START names
    frames_dec = None
    if D['data_block'] is not None and is_c(H['nb_points']) and is_c(H['analog_total']) and is_c(H['sub']) and is_c(H['first']) and is_c(H['last']):
        nf = len(M['frames'] or [])
        try:
            frames_dec = c3dref.decode_frames(cells, D, nframes=nf)
            o('data.length', len(cells) != D['data_end'], 'file has %d bytes, data section by header counts ends at %d' % (len(cells), D['data_end']))
        except IndexError:
            o('data.length', True, 'file too short for the declared data'); frames_dec = None
    else:
        o('data.locatable', True, 'POINT:DATA_START missing or not a concrete block number')
    return O, D, frames_dec

def obligations(sec, job, st):
    M = obsmodel.parse_dump(sec['pre'])
    cells = [cell_value(c) for c in dict(sec['files'])['#file:out.c3d']]
    O, D, frames = struct_obligations(cells, M, job, st, 'saved')
    if D is not None:
        O += obsmodel.compare_loaded_with_file(D, frames, M, 'saved/content', {'match': 'position', 'skip_data_start_value': True, 'skip_data_start_word': True, 'file_is_actual': True})
    return O

def loaded_obligations(sec, job, st):
    M = obsmodel.parse_dump(sec['gen1'])
    cells = [cell_value(c) for c in dict(sec['files1'])['#file:gen2.c3d']]
    pre = 'loaded-then-saved'
    O, D, frames = struct_obligations(cells, M, job, st, pre)
    if D is not None:
        O += obsmodel.compare_loaded_with_file(D, frames, M, pre + '/content', {'match': 'name', 'skip_data_start_value': True, 'skip_data_start_word': True, 'file_is_actual': True})
    return O

def hist_final(sec, st, tag):
    if tag and tag != '@rate-changed-with-data': return []      # gap frames / empty frames / rates zeroed with data: recorded findings (C05), outside this claim
    return obligations(sec, None, st)

def run_job(engine, job):
    if job.get('name') == 'hist':
        from . import histcommon
        return histcommon.explore(engine, job, ID, lambda *a: [], final=hist_final)
    if job['name'] == 'loaded':
        from . import c02, gen
        S, c, lay, cells = c02.build_file(dict(job, name=job['lname']))
        return std_run(engine, job, loaded_obligations, 'end', ID, 'loaded-' + job['lname'], files={'in.c3d': gen.to_engine_cells(cells)}, assume=S.cons)
    if job['name'] == 'many-blocks': return std_run(engine, job, obligations, 'c17.end', ID, job['name'], wall=280, maxsteps=400_000_000)
    return std_run(engine, job, obligations, 'save.end', ID, job['name'])

def native_confirm(nat, v):
    out, sec = native_sections(nat, v['replay'])
    if out['rc'] != 0: return None
    obls = loaded_obligations(sec, v['job'], None) if v['job'].get('name') == 'loaded' else obligations(sec, v['job'], None)
    locus = v['id'].split('/', 2)[-1].split('@')[0]
    bad = [o.locus for o in obls if o.bad is True]
    if locus in bad: return True
    # a structural defect can surface under another structural rule once the payload is concrete (e.g. a missing end
    # marker is then "followed" as a record): any failing structural rule confirms a structural violation
    if '/struct/' in locus and any('/struct/' in b for b in bad): return True
    return False
