# C01 Build -> save -> load returns the same content (DESIGN.md section 4, C01)
from .common import *
ID = 'C01'
HARNESSES = ['h_c01.cpp', 'h_hist.cpp']
LEVEL = 'model_checking'
BUDGET = {'quick': 280, 'thorough': 3600}
BOUNDS = {'quick': 'shapes P,C<=2 S<=2 F<=2; 3 construction orders; one extra parameter (int/float/string, 0..3 dims of extent<=3, name<=4 chars, description<=3 chars); all floats, 16-bit ints, characters, lock flags symbolic; parameter-section length swept through all 512 residues modulo the block size; all histories of 2 operations from the populated start state followed by save -> load -> full comparison',
          'thorough': 'shapes P,C<=3 S<=3 F<=3; 3 construction orders; extra parameter int/float/string with 0..7 dims, descriptions 0/1/17 chars, symbolic point/channel names; all payload symbolic'}
OUTSIDE = 'more than 3 points/channels/sub-frames/frames; strings longer than 17 chars; BYTE-typed parameters (no public setter); integer values outside int16 (C17)'
ASSUMPTIONS = ['POINT:RATE=100 and ANALOG:RATE=100*S are concrete (they fix loop trip counts)', 'names are printable non-space ASCII; descriptions printable ASCII']

def base(**kw):
    c = dict(P=2, C=1, S=2, F=2, order=0, ex_type=0, ex_group=0, ex_ndim=0, ex_n=0, ex_nlen=0, ex_dlen=0, ex_slen=0, symnames=0, norate=0, pad=-1, point_scale=0, concname=0, prate4=0)
    c.update(kw); return c

def ex_variants(tier):
    v = [dict(ex_type=2, ex_ndim=0, ex_n=3, ex_nlen=3, ex_dlen=2),
         dict(ex_type=2, ex_ndim=2, ex_d0=2, ex_d1=2, ex_n=4, ex_nlen=4, ex_dlen=0),
         dict(ex_type=2, ex_ndim=1, ex_d0=1, ex_n=1, ex_nlen=1, ex_dlen=3),          # scalar written with 0 dims
         dict(ex_type=2, ex_ndim=0, ex_n=0, ex_nlen=2, ex_dlen=1),                   # empty
         dict(ex_type=4, ex_ndim=0, ex_n=2, ex_nlen=2, ex_dlen=1),
         dict(ex_type=4, ex_ndim=3, ex_d0=1, ex_d1=3, ex_d2=1, ex_n=3, ex_nlen=2, ex_dlen=0),
         dict(ex_type=-1, ex_ndim=0, ex_n=2, ex_slen=3, ex_nlen=2, ex_dlen=2),
         dict(ex_type=-1, ex_ndim=0, ex_n=1, ex_slen=2, ex_nlen=2, ex_dlen=0),
         dict(ex_type=-1, ex_ndim=2, ex_d0=2, ex_d1=1, ex_n=2, ex_slen=1, ex_nlen=3, ex_dlen=0),
         dict(ex_type=-1, ex_ndim=0, ex_n=0, ex_slen=0, ex_nlen=2, ex_dlen=0)]
    if tier == 'thorough':
        v += [dict(ex_type=2, ex_ndim=7, ex_d0=2, ex_d1=1, ex_d2=2, ex_d3=1, ex_d4=1, ex_d5=2, ex_d6=1, ex_n=8, ex_nlen=5, ex_dlen=17),
              dict(ex_type=4, ex_ndim=4, ex_d0=2, ex_d1=2, ex_d2=1, ex_d3=2, ex_n=8, ex_nlen=3, ex_dlen=1),
              dict(ex_type=4, ex_ndim=2, ex_d0=0, ex_d1=3, ex_n=0, ex_nlen=3, ex_dlen=1),
              dict(ex_type=-1, ex_ndim=3, ex_d0=2, ex_d1=1, ex_d2=2, ex_n=4, ex_slen=2, ex_nlen=3, ex_dlen=17),
              dict(ex_type=-1, ex_ndim=0, ex_n=3, ex_slen=17, ex_nlen=3, ex_dlen=0),
              dict(ex_type=2, ex_ndim=1, ex_d0=3, ex_n=3, ex_nlen=8, ex_dlen=1, only_groups=(0, 2))]
    return v

def jobs(tier, seed):
    out = []
    def J(**kw): out.append({'entry': 'h_c01', 'harness': 'h_c01.cpp', 'cfg': base(**kw)})
    top = 2 if tier == 'quick' else 3
    # shapes x orders, no extra parameter
    shapes = [(p, c, s, f) for p in range(top + 1) for c in range(top + 1) for s in range(1, top + 1) for f in range(top + 1) if not (c == 0 and s > 1) and not (p == 0 and c == 0 and f > 0)]
    # (quick: every shape up to 2 points x 2 channels x 2 sub-frames x 2 frames, all three construction orders on nine of them and one
    # order - rotating - on the others; thorough: every shape up to 3 each, all orders)
    allorders = ((0, 0, 1, 0), (1, 0, 1, 1), (0, 1, 1, 1), (0, 2, 2, 2), (2, 1, 2, 2), (2, 2, 1, 2), (1, 1, 2, 0), (2, 0, 1, 2), (1, 2, 2, 1))
    for k, (p, c, s, f) in enumerate(shapes):
        for order in ((0, 1, 2) if tier == 'thorough' or (p, c, s, f) in allorders else (k % 3,)):
            J(P=p, C=c, S=s, F=f, order=order)
            if tier == 'quick' and (p, c, s, f) not in allorders: out[-1]['sweep'] = True      # (checks that borrow this list skip these in their quick tier)
    # extra parameter variants on a fixed shape, each order and group placement
    for i, ev in enumerate(ex_variants(tier)):
        for order in (0, 1, 2):
            for g in ((0, 1, 2) if tier == 'thorough' else ((i + order) % 3,)):
                ev2 = dict(ev); og = ev2.pop('only_groups', None)
                if og is not None and g not in og: continue     # a long symbolic name against the 8 names of POINT explodes (8 string compares per path)
                J(P=1, C=1, S=1, F=1, order=order, ex_group=g, **ev2)
    # shape sweep: every rank 1..3 with every extent in 0..2 (and rank 4 with extents 1..2 in thorough), for int, float and string
    # values - the shapes are loop bounds (enumerated completely up to the bound), the values are free
    import itertools
    k = 0
    for rank in ((1, 2, 3) if tier == 'quick' else (1, 2, 3, 4)):
        for dims in itertools.product((0, 1, 2) if rank < 4 else (1, 2), repeat=rank):
            n = 1
            for d in dims: n *= d
            for t in (2, 4, -1):
                kw = dict(('ex_d%d' % i, d) for i, d in enumerate(dims))
                J(P=1, C=0, S=1, F=1, order=k % 3, ex_group=0, ex_type=t, ex_ndim=rank, ex_n=n, ex_nlen=2, ex_dlen=k % 2, ex_slen=1 + k % 2, **kw); out[-1]['sweep'] = True; k += 1
    # rates that are not whole numbers: POINT:RATE in quarter-Hz steps from 1 to 6 Hz, ANALOG:RATE = 1..3 times that (the reload derives the
    # sub-frame count from the ratio of the two rates)
    for q in range(4, 25):
        for S_ in (1, 2, 3):
            J(P=1, C=1, S=S_, F=2, order=q % 3, prate4=q); out[-1]['sweep'] = True
    # analog-only content without a POINT:RATE (one sub-frame per frame)
    for order in (0, 1, 2): J(P=0, C=2, S=1, F=2, order=order, norate=1)
    # alignment sweep: the parameter section length goes through all 512 residues modulo the block size (0.3 s per save/load);
    # the data floats are free, so the byte that follows the parameter section is any value
    for L in range(0, 520): J(P=1, C=0, S=1, F=1, order=L % 3, pad=L)
    # POINT:SCALE set by the user to any float (it is content like any other parameter)
    for order in (0, 1, 2): J(P=2, C=1, S=1, F=1, order=order, point_scale=1)
    # construction histories: every history of 2 operations (58-operation alphabet of the history harness) from the declared and
    # the populated start state, then save -> load -> full comparison
    from . import histcommon
    # (start states that declare a channel: for objects without channels the sub-frame count of a built object (0) and of a loaded one (the
    # ratio of the rates) differ by design and the statement fixes it only when there is at least one channel - section 10)
    for j in histcommon.hist_jobs('quick', seed, finish=3):
        if j['cfg']['start'] == 2: out.append(j)
    if tier == 'thorough':
        for j in histcommon.hist_jobs('thorough', seed, finish=3):
            if j['cfg']['start'] == 2: out.append(j)
    # symbolic point/channel names
    J(P=2, C=2, S=1, F=1, order=0, symnames=1)
    if tier == 'thorough':
        J(P=2, C=2, S=2, F=2, order=1, symnames=1); J(P=3, C=1, S=1, F=2, order=2, symnames=1)
    # the longest single configurations first (a long free name placed in POINT, free point/channel names): they then overlap with the many short ones
    for j in out:
        if j.get('cfg', {}).get('symnames') or (j.get('cfg', {}).get('ex_group') == 1 and j.get('cfg', {}).get('ex_nlen', 0) >= 4): j['first'] = 1      # (the runner starts these first)
    return out

UPPER = ('grp.name', 'prm.name')
def obligations(sec, job, st):
    pre, post, inp = sec['pre'], sec['post'], sec['in']
    # split pre/post into header+params / data at 'dat.nbFrames'
    def split(s):
        for i, (l, v) in enumerate(s):
            if l == 'dat.nbFrames': return s[:i], s[i:]
        return s, []
    pre_hp, pre_d = split(pre); post_hp, post_d = split(post)
    skip = ('prm.datastart',)
    # the header's sub-frame count is content only when there is at least one analog channel
    if job['cfg']['C'] == 0: skip += ('hdr.nbAnalogByFrame', 'hdr.nbAnalogsMeasurement')
    obls = compare(pre_hp, post_hp, 'meta', upper_labels=UPPER, skip_labels=skip)
    obls += compare(inp, post_d, 'data')
    return obls

def hist_final(sec, st, tag):
    if tag: return []          # histories with gap frames / empty frames / a rate changed while frames exist (the stored sub-frame count then contradicts the rate ratio on reload): recorded findings (C05), outside this claim
    pre, post = sec['pre'], sec['post']
    skip = ('prm.datastart',)
    return compare(pre, post, 'history/pre-vs-post', upper_labels=UPPER, skip_labels=skip)

def run_job(engine, job):
    if job.get('name') == 'hist':
        from . import histcommon
        return histcommon.explore(engine, job, ID, lambda *a: [], final=hist_final)
    return std_run(engine, job, obligations, 'c01.end', ID, 'roundtrip')

native_confirm = native_confirm_by(obligations)
