# C08 Stored data is independent of the caller's objects and of other frames (DESIGN.md section 4, C08)
from .common import *
from . import c06
from oracle import obsmodel
ID = 'C08'
HARNESSES = ['h_c06.cpp']
LEVEL = 'model_checking'
BUDGET = {'quick': 200, 'thorough': 1200}
BOUNDS = {'quick': 'families: (a0) as (a)/(b)/(c) with the frame handed over as a TEMPORARY or MOVED-FROM shallow copy of the caller\'s frame (it shares the caller\'s handles), (a) append then mutate the caller\'s frame through 9 public mutators, (b) same after an indexed store, (c) the same frame object appended 2-3 times then a point/channel column added (by name and by frames) and one stored frame replaced, (d) one vector of frames handed to point() twice under two names while the caller keeps mutating it, (e) a frame of the data set itself handed back (append / beyond the end / in place) for data sets of 1..5 frames, so that the store reallocates while its argument is read, (f) gap frames created by one indexed store 3 beyond the end, then a point/channel column; shapes 2 points x 1 channel, analog-only (0 x 1) and points-only (2 x 0), 1 sub-frame; all floats symbolic',
          'thorough': 'same families on shapes up to 3x2x2, 2..4 repetitions'}
OUTSIDE = 'aliasing through API not listed in the anchors (e.g. frames obtained from data().frames() copies)'
ASSUMPTIONS = []

def jobs(tier, seed):
    out = []
    shapes = [(2, 1, 1), (0, 1, 1), (2, 0, 1)] if tier == 'quick' else [(2, 1, 1), (3, 2, 2), (1, 1, 2), (0, 1, 1), (0, 2, 2), (2, 0, 1)]
    def J(name, **cfg): cfg.setdefault('rv', 0); out.append({'entry': 'h_c08', 'harness': 'h_c06.cpp', 'name': name, 'cfg': cfg})
    for (P, C, S) in shapes:
        for fam in (0, 1):
            for mut in range(9):
                J('handover-then-mutate-%s' % ('append' if fam == 0 else 'indexed'), family=fam, mutator=mut, P=P, C=C, S=S, pre=0, at=0)
                for rv in (1, 2):       # the frame handed over as a temporary / moved-from shallow copy of the caller's frame
                    if mut in (0, 2, 3, 4) or tier != 'quick': J('handover-temporary-then-mutate-%s' % ('append' if fam == 0 else 'indexed'), family=fam, mutator=mut, P=P, C=C, S=S, pre=0, at=0, rv=rv)
                if fam == 1:
                    for at in (0, 1): J('handover-then-mutate-replace', family=1, mutator=mut, P=P, C=C, S=S, pre=2, at=at)
                    if mut in (0, 3): J('handover-temporary-then-mutate-replace', family=1, mutator=mut, P=P, C=C, S=S, pre=2, at=1, rv=1)
        for times in ((2, 3) if tier == 'quick' else (2, 3, 4)):
            for col in (0, 1, 2, 3):
                if col == 2 and C == 0: continue          # analog(name) needs existing sub-frames
                for rep in ((0, 1) if col == 0 else (0,)): J('same-frame-%dx' % times, family=2, times=times, column=col, replace0=rep, P=P, C=C, S=S)
                if col in (1, 2) and times == 2: J('same-frame-as-temporaries', family=2, times=times, column=col, replace0=0, P=P, C=C, S=S, rv=1)
            J('same-vector-twice', family=3, times=times, P=P, C=C, S=S)
        for times in (1, 2, 3, 4, 5):
            for how in (0, 1, 2): J('store-own-frame', family=4, times=times, column=how, P=P, C=C, S=S)
        for times in (1, 2):
            if P: J('gap-frames-independent', family=5, times=times, column=0, P=P, C=C, S=S)      # (a channel column on gap frames is the known C07 finding)
    return out

def obligations(sec, job, st):
    cfg = job['cfg']; fam = cfg['family']; O = []
    if fam in (0, 1):
        G = obsmodel.parse_dump([('dat.nbFrames', 1)] + sec['given'])['frames'][0]
        Sx = obsmodel.parse_dump([('dat.nbFrames', 1)] + sec['stored'])['frames'][0]
        O += c06.frame_eq('stored-vs-handed-over', G, Sx, 'stored frame after the caller mutated its own frame (mutator %d)' % cfg['mutator'])
    elif fam == 2:
        G = obsmodel.parse_dump([('dat.nbFrames', 1)] + sec['given'])['frames'][0]
        A = obsmodel.parse_dump(sec['after'])['frames']; times = cfg['times']; col = cfg['column']
        O.append(Obl('same-frame/count', len(A) != times, '%d appends give %d frames' % (times, len(A))))
        colx = [v for l, v in sec.get('col', [])]
        for k, a in enumerate(A):
            ep = None; ec = None
            if col == 1: ep = dict(c06.ZERO_POINT, name=list(b'newp'))
            elif col == 2: ec = [{'data': 0, 'name': list(b'newa')} for _ in a['subframes']]
            elif col == 3: ep = {'x': colx[k], 'name': list(b'newp')}
            O += c06.frame_eq('same-frame/one-column-per-frame', G, a, 'frame %d of %d (same frame object appended %d times, column kind %d)' % (k, times, times, col), extra_point=ep, extra_channel=ec)
        if cfg['replace0']:
            G2 = obsmodel.parse_dump([('dat.nbFrames', 1)] + sec['given2'])['frames'][0]
            A2 = obsmodel.parse_dump(sec['after2'])['frames']
            if len(A2) == len(A):
                if col in (0, 2): O += c06.frame_eq('same-frame/edit-one', G2, A2[0], 'frame 0 after storing another frame there') if col == 0 else []
                for k in range(1, len(A)): O += c06.frame_eq('same-frame/others-independent', A[k], A2[k], 'frame %d after frame 0 was replaced' % k)
    elif fam == 5:
        B = obsmodel.parse_dump(sec['before'])['frames']; A = obsmodel.parse_dump(sec['after'])['frames']
        O.append(Obl('gap-frames/count', len(A) != len(B), 'column add changes the frame count'))
        for k in range(min(len(A), len(B))):
            if cfg['column'] == 0: O += c06.frame_eq('gap-frames/one-column-per-frame', B[k], A[k], 'frame %d after one point column' % k, extra_point=dict(c06.ZERO_POINT, name=list(b'newp')))
            else: O += c06.frame_eq('gap-frames/one-column-per-frame', B[k], A[k], 'frame %d after one channel column' % k, extra_channel=[{'data': 0, 'name': list(b'newa')} for _ in A[k]['subframes']])
    elif fam == 4:
        B = obsmodel.parse_dump(sec['before'])['frames']; A = obsmodel.parse_dump(sec['after'])['frames']; n = cfg['times']; how = cfg['column']
        src, dst, cnt = ((0, n, n + 1), (n - 1, n + 1, n + 2), (0, n - 1, n))[how]
        O.append(Obl('store-own-frame/count', len(A) != cnt, 'storing a frame of the data set itself: %d frames, expected %d' % (len(A), cnt)))
        if len(A) == cnt:
            O += c06.frame_eq('store-own-frame/target', B[src], A[dst], 'frame stored from the data set\'s own frame %d' % src)
            for k in range(len(B)):
                if k != dst: O += c06.frame_eq('store-own-frame/others-unchanged', B[k], A[k], 'frame %d' % k)
    else:
        A = obsmodel.parse_dump(sec['after'])['frames']
        c1 = sec['col']; c2 = sec['col2']
        for k, a in enumerate(A):
            pts = a['points']; P = cfg['P']
            O.append(Obl('same-vector/count', a['nbPoints'] != P + 2, 'frame %d holds %s points, expected %d' % (k, a['nbPoints'], P + 2)))
            if a['nbPoints'] == P + 2:
                O.append(Obl('same-vector/first-column', neq(c1[2 * k][1], pts[P]['x']), 'x of first added column in frame %d' % k))
                O.append(Obl('same-vector/first-column', neq(c1[2 * k + 1][1], pts[P]['y']), 'y of first added column in frame %d' % k))
                O.append(Obl('same-vector/second-column', neq(c2[2 * k][1], pts[P + 1]['x']), 'x of second added column in frame %d' % k))
                O.append(Obl('same-vector/second-column', neq(c2[2 * k + 1][1], pts[P + 1]['y']), 'y of second added column in frame %d' % k))
                O += obsmodel.eq_list('same-vector/names', list(b'colA'), pts[P]['name'], 'name of first added column')
                O += obsmodel.eq_list('same-vector/names', list(b'colB'), pts[P + 1]['name'], 'name of second added column')
    return O

def run_job(engine, job): return std_run(engine, job, obligations, 'c08.end', ID, job['name'], fatal_as='violation')
native_confirm = native_confirm_by(obligations)
