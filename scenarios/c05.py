# C05 Header, POINT/ANALOG parameters and stored data always agree (DESIGN.md section 4, C05)
import struct
from .histcommon import *
ID = 'C05'
LEVEL = 'model_checking'
BUDGET = {'quick': 290, 'thorough': 3300}
BOUNDS = {'quick': 'kernel: 1-2 frames with 2/3 sub-frames all replaced in place by frames with 3/4/1 sub-frames (1-2 channels), views compared at the end; all histories of depth 2 over a 58-operation alphabet from 7 start states (6 in the quick tier) (fresh, declared, populated, loaded from a file that starts at frame 10, loaded with fewer labels than points, loaded with an empty ANALOG group, loaded with ANALOG:SCALE padded and ANALOG:UNITS unfilled), views checked after every successful call; frame payloads symbolic; rates from {0,50,100}/{0,100,200,300}; plus a kernel with FREE rates: POINT:RATE 100 (thorough: any float in [1,2000]), ANALOG:RATE set twice to any float in [0,20000] with 1..3 declared channels, header analog view vs ANALOG:USED decided by z3 (FP theory for the ratio)',
          'thorough': 'all histories of depth 3 (6 x 56^3 = 630k histories; capped by the wall budget, the cut is reported)'}
OUTSIDE = 'histories deeper than the bound; frames whose sub-frame count deviates from the header (undocumented deviation, outside the property\'s quantifier); rates other than the enumerated ones'
ASSUMPTIONS = ['a frame is "filled" when it holds at least one point or one sub-frame (gap frames created by an indexed store beyond the end are not)']
RULE = 'one evaluation = one history (path); non-trivial = the history has at least one successful mutating call with symbolic payload'

def fbits(b): return struct.unpack('<f', struct.pack('<I', b & 0xffffffff))[0]

def views(M, prefix, detail):
    """obligations of the C05 statement on one dump"""
    O = []
    def o(name, bad, d): O.append(Obl('%s/%s' % (prefix, name), bad, '%s: %s' % (detail, d)))
    A = contract.abstract(M); h = M['hdr']
    P = {}; G = {}
    for g in M['groups']:
        for p in g['params']: P[(cstr(g['name']), cstr(p['name']))] = p
    def pv(g, n):
        q = P.get((g, n)); return q['values'] if q else None
    used = A['used']; frames = pv('POINT', 'FRAMES')[0]
    if A['aused'] is None: A = dict(A, aused=0)      # an ANALOG group without parameters (what Optotrak writes) declares no channel
    o('points/header-vs-used', neq(h['nb3dPoints'], used), 'header point count %s, POINT:USED %s' % (h['nb3dPoints'], used))
    o('frames/header-vs-frames', neq(h['nbFrames'], frames), 'header frame count %s, POINT:FRAMES %s' % (h['nbFrames'], frames))
    o('frames/frames-vs-data', neq(frames, M['nbFrames']), 'POINT:FRAMES %s, stored frames %s' % (frames, M['nbFrames']))
    filled = [f for f in M['frames'] if f['nbPoints'] or f['nbSubframes']]
    for k, f in enumerate(M['frames']):
        if not (f['nbPoints'] or f['nbSubframes']): continue
        o('points/used-vs-frame', neq(used, f['nbPoints']), 'POINT:USED %s, frame %d holds %s points' % (used, k, f['nbPoints']))
    sub = h['nbAnalogByFrame']
    for k, f in enumerate(M['frames']):
        if not (f['nbPoints'] or f['nbSubframes']): continue
        aus = A['aused']
        if aus != 0 or f['nbSubframes']:
            o('subframes/header-vs-frame', neq(sub, f['nbSubframes']) and not (aus == 0 and f['nbSubframes'] == 0), 'header sub-frames %s, frame %d holds %s' % (sub, k, f['nbSubframes']))
    if is_c(sub) and sub >= 1:
        aus = A['aused']
        o('channels/header-vs-used', neq(h['nbAnalogs'], aus), 'header channel count %s, ANALOG:USED %s' % (h['nbAnalogs'], aus))
        o('channels/measurements', neq(h['nbAnalogsMeasurement'], (aus * sub) if is_c(aus) else None), 'analog samples per frame %s, channels x sub-frames %s x %s' % (h['nbAnalogsMeasurement'], aus, sub))
        for k, f in enumerate(M['frames']):
            for s, sf in enumerate(f['subframes']):
                o('channels/used-vs-frame', neq(aus, len(sf)), 'ANALOG:USED %s, frame %d sub-frame %d holds %d channels' % (aus, k, s, len(sf)))
    pr = pv('POINT', 'RATE')[0]
    if is_c(pr) and is_c(h['frameRate']):
        a, b = fbits(h['frameRate']), fbits(pr)
        o('rate/header-vs-point-rate', not (abs(a - b) < 1e-4), 'header rate %r, POINT:RATE %r' % (a, b))
    for n in ('LABELS', 'DESCRIPTIONS', 'UNITS'):
        v = pv('POINT', n)
        if v is not None: o('lists/POINT:' + n, neq(len(v), used), 'POINT:%s has %d entries for %s points' % (n, len(v), used))
    if pv('ANALOG', 'USED') is not None:
        for n in ('LABELS', 'DESCRIPTIONS', 'SCALE', 'OFFSET', 'UNITS'):
            v = pv('ANALOG', n)
            if v is not None: o('lists/ANALOG:' + n, neq(len(v), A['aused']), 'ANALOG:%s has %d entries for %s channels' % (n, len(v), A['aused']))
    # data order: label i names point i / channel i of every filled frame
    lab = A['labels']
    for k, f in enumerate(filled):
        for i, p in enumerate(f['points']):
            if i < len(lab) and 'name' in p:
                O.extend(obsmodel.eq_list(prefix + '/lists/label-order', lab[i], p['name'], '%s: POINT:LABELS[%d] vs name of point %d in a filled frame' % (detail, i, i)))
        al = A['alabels']
        for sf in f['subframes']:
            for i, ch in enumerate(sf):
                if i < len(al) and 'name' in ch:
                    O.extend(obsmodel.eq_list(prefix + '/lists/channel-label-order', al[i], ch['name'], '%s: ANALOG:LABELS[%d] vs name of channel %d' % (detail, i, i)))
    return O

cstr = obsmodel.cstr
def per_step(k, before, call, after, st, sec):
    if call['call.outcome'] != 0: return []          # refused calls are C10's subject
    O = views(obsmodel.parse_dump(after), 'views', 'after %s' % OP_NAMES.get(call['call.op']))
    if st is not None and st.cfg.get('start') in (4, 6, 9):
        # the start file has fewer labels than points (4) / ANALOG lists shorter and longer than ANALOG:USED (6) on purpose.  The 'one entry per
        # point/channel' clause is about declarations by name: it applies to the POINT lists from the first successful point declaration or
        # point column on (the library then rewrites / completes them), and to the ANALOG lists from the first channel declaration or column on
        prior = [c for (_, c, _) in steps_of(sec)[:k + 1]]
        pdecl = any(c.get('call.kind') in (1, 6) and c['call.outcome'] == 0 for c in prior)
        adecl = any(c.get('call.kind') in (2, 7) and c['call.outcome'] == 0 for c in prior)
        O = [o for o in O if not (('/lists/POINT' in o.locus or '/lists/label-order' in o.locus) and not pdecl) and not (('/lists/ANALOG' in o.locus or '/lists/channel-label-order' in o.locus) and not adecl)]
        # start 4: the names of the points WITHOUT a label are free in every frame (the contract only asks for the labelled ones), so frames may
        # disagree on them and "in data order" has no single meaning for those positions: the order clause is not judged from that start state
        if st.cfg.get('start') == 4: O = [o for o in O if '/lists/label-order' not in o.locus]
    return O

def resub_jobs(tier):
    return [{'entry': 'h_resub', 'harness': 'h_hist.cpp', 'name': 'resampled-in-place', 'cfg': {'frames': n, 'sub0': a, 'sub1': b, 'channels': c}}
            for n in (1, 2) for (a, b) in ((2, 3), (2, 4), (3, 1)) for c in ((1, 2) if tier == 'quick' else (1, 2, 3))]

def resub_obligations(sec, job, st):
    return views(obsmodel.parse_dump(sec['after']), 'resampled/views', 'after every frame was replaced by one with %d instead of %d sub-frames' % (job['cfg']['sub1'], job['cfg']['sub0']))

def jobs(tier, seed):
    out = []
    # (the free-rate kernels are the longest single jobs - one to three minutes of floating-point solving each - so they are scheduled first)
    for n in ((2, 1) if tier == 'quick' else (5, 4, 3, 2, 1)):
        out.append({'entry': 'h_rates', 'harness': 'h_hist.cpp', 'name': 'rates', 'cfg': {'channels': n, 'steps': 2, 'free_point_rate': 0 if tier == 'quick' else 1}})
    return out + resub_jobs(tier) + hist_jobs(tier, seed, finish=0, extra_starts=(9,))

def rate_obligations(sec, job, st):
    O = []; k = 1
    while True:
        sfx = '' if k == 1 else '#%d' % k
        if 'after' + sfx not in sec: break
        a = dict(sec['after' + sfx]); k += 1
        sub = a['hdr.nbAnalogByFrame']; used = a['ANALOG:USED']; meas = a['hdr.nbAnalogsMeasurement']
        w = lambda v: tobv(v, 64)
        # whenever the header sub-frame count is at least one: channel count = ANALOG:USED and samples per frame = channels x sub-frames
        ge1 = z3.UGE(w(sub), 1)
        O.append(Obl('rates/channels-vs-used', simp(z3.And(ge1, w(a['hdr.nbAnalogs']) != w(used))), 'call %d: header channel count differs from ANALOG:USED while the sub-frame count is >= 1' % (k - 1)))
        O.append(Obl('rates/measurements', simp(z3.And(ge1, w(meas) != w(used) * w(sub))), 'call %d: analog samples per frame differs from channels x sub-frames' % (k - 1)))
        O.append(Obl('rates/frame-rate', neq(a['hdr.frameRate'], a['POINT:RATE']), 'call %d: header rate differs from POINT:RATE' % (k - 1)))
    for o in O:
        if is_c(o.bad): o.bad = bool(o.bad)
    return O

def run_job(engine, job):
    if job['name'] == 'resampled-in-place': return std_run(engine, job, resub_obligations, 'resub.end', ID, 'resampled')
    if job['name'] == 'rates': return std_run(engine, job, rate_obligations, 'rates.end', ID, 'rates', wall=250)
    return explore(engine, job, ID, per_step)

def native_confirm(nat, v):
    out, sec = native_sections(nat, v['replay'])
    if out['rc'] != 0: return None
    locus = v['id'].split('/', 2)[-1].split('@')[0]
    if v['job'].get('name') == 'resampled-in-place':
        return any(o.bad is True and o.locus == locus for o in resub_obligations(sec, v['job'], None))
    if v['job'].get('name') == 'rates':
        return any(o.bad is True and o.locus == locus for o in rate_obligations(sec, v['job'], None))
    for k, (b, call, a) in enumerate(steps_of(sec)):
        for o in per_step(k, b, call, a, None, sec):
            if o.bad is True and o.locus == locus: return True
    return False
