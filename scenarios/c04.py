# C04 Load -> save -> load preserves a file's content; the second save is a fixpoint (DESIGN.md section 4, C04)
from .common import *
from . import gen, c02
from oracle import c3dref, obsmodel
ID = 'C04'
HARNESSES = ['h_load.cpp']
LEVEL = 'model_checking'
BUDGET = {'quick': 280, 'thorough': 3000}
BOUNDS = c02.BOUNDS
OUTSIDE = c02.OUTSIDE + '; more than two load/save generations (generation 3 equals generation 2 byte for byte, so further generations repeat)'
ASSUMPTIONS = c02.ASSUMPTIONS

def jobs(tier, seed):
    out = []
    for j in c02.jobs(tier, seed):
        j = dict(j); j['cfg'] = {'gens': 2, 'dump': 1, 'obsfiles': 0}
        out.append(j)
    # alignment sweep on a tiny file: the re-saved parameter section goes through every residue modulo 512 while the
    # first data bytes stay free (a reader that runs past a missing terminator meets any byte value)
    # (three descriptions of up to 255 characters: 0..255, 255..510, 510..765 cover every residue; the data are concrete with
    # non-zero low bytes so that a reader running past a missing end marker fails deterministically instead of forking)
    for L in range(0, 256):
        for second, third in ((0, 0), (255, 0), (255, 255)):
            out.append({'entry': 'h_load', 'harness': 'h_load.cpp', 'name': 'align', 'cfg': {'gens': 2, 'dump': 1, 'obsfiles': 0}, 'shape': {'P': 1, 'C': 0, 'sub': 0, 'F': 1}, 'lay': {},
                        'opts': {'analog': 'empty', 'symbolic_meta': False, 'concrete_data': True, 'extras': [{'name': 'PADA', 'type': 2, 'dims': [1], 'desc_len': L, 'concrete_desc': True}, {'name': 'PADB', 'type': 2, 'dims': [1], 'desc_len': second, 'concrete_desc': True}, {'name': 'PADC', 'type': 2, 'dims': [1], 'desc_len': third, 'concrete_desc': True}]}})
    return out

SKIP = ('hdr.dataStart', 'prm.datastart')     # where the data start is layout, not content
def obligations(sec, job, st):
    O = compare(sec['gen1'], sec['gen2'], 'gen1-vs-gen2', skip_labels=SKIP)
    f = dict(sec['files'])
    g2 = [cell_value(c) for c in f['#file:gen2.c3d']]; g3 = [cell_value(c) for c in f['#file:gen3.c3d']]
    if len(g2) != len(g3): O.append(Obl('fixpoint/length', True, 'second save has %d bytes, third %d' % (len(g2), len(g3))))
    else:
        for k, (a, b) in enumerate(zip(g2, g3)):
            if a is None or b is None:
                O.append(Obl('fixpoint/undefined-byte', a is not b, 'byte %d undefined in one save' % k)); continue
            O.append(Obl('fixpoint/bytes', neq(a, b), 'byte %d of the saved file (%s)' % (k, region(k))))
    return O

def region(k):
    if k < 512: return 'header word %d' % (k // 2 + 1)
    return 'offset %d' % k

def run_job(engine, job):
    S, c, lay, cells = c02.build_file(job)
    files = {'in.c3d': gen.to_engine_cells(cells)}
    return std_run(engine, job, obligations, 'end', ID, job['name'], files=files, assume=S.cons, fatal_as='violation')

def native_confirm(nat, v):
    out, sec = native_sections(nat, v['replay'])
    if out['rc'] != 0: return None
    try: obls = obligations(sec, v['job'], None)
    except KeyError: return None
    locus = v['id'].split('/', 2)[-1]
    return any(o.bad is True and o.locus == locus for o in obls)
