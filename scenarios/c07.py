# C07 Frame-adding calls enforce their documented preconditions (DESIGN.md section 4, C07)
from .histcommon import *
ID = 'C07'
LEVEL = 'model_checking'
BUDGET = {'quick': 290, 'thorough': 3300}
BOUNDS = {'quick': 'every frame/point-column/channel-column call (columns given as frames and, when frames exist, by name) in all histories of depth 2 (58 operations, 7 start states (6 in the quick tier)): object states declared/undeclared x rates set/unset x data present/absent, deviations one point/channel/frame/sub-frame too few/many, renamed (symbolic name, all names != labels), duplicated, empty',
          'thorough': 'depth 3'}
OUTSIDE = 'deviations not in the alphabet (e.g. two deviations at once beyond those listed); sub-frame-count deviations of frame() (the documented contract is silent); histories deeper than the bound'
ASSUMPTIONS = ['the contract model oracle/contract.py restates include/ezc3d.h:353-429 and the C07 statement; where several refusal reasons hold, any of their classes is accepted']
RULE = 'one evaluation = one history (path); each contains 2..3 calls judged against the contract model; non-trivial = the judged call has symbolic payload or a symbolic name'
CLASS = {0: 'accepted', 1: 'ios_base::failure', 2: 'invalid_argument', 3: 'out_of_range', 4: 'length_error', 5: 'range_error', 6: 'runtime_error', 7: 'logic_error', 8: 'bad_alloc', 9: 'std::exception'}

def per_step(k, before, call, after, st, sec):
    if call['call.kind'] not in (0, 1, 2, 6, 7): return []
    A = contract.abstract(obsmodel.parse_dump(before))
    exp = contract.expect(A, call); out = call['call.outcome']
    name = OP_NAMES.get(call['call.op']); kind = {0: 'frame', 1: 'point-column', 2: 'channel-column', 6: 'point-by-name', 7: 'channel-by-name'}[call['call.kind']]
    if exp[0] == 'any': return [Obl('contract/%s/unconstrained' % kind, False)]
    if exp[0] == 'accept':
        return [Obl('contract/%s/valid-call-refused' % kind, out != 0, '%s matches the declared shape but was refused with %s' % (name, CLASS.get(out)))]
    allowed = set(exp[1])
    if contract.RUNTIME_ERROR in allowed: allowed.add(5)
    if out == 0: return [Obl('contract/%s/invalid-call-accepted' % kind, True, '%s must be refused (%s) but was accepted' % (name, '/'.join(CLASS[c] for c in sorted(exp[1]))))]
    return [Obl('contract/%s/wrong-exception-class' % kind, out not in allowed, '%s refused with %s, documented: %s' % (name, CLASS.get(out), '/'.join(CLASS[c] for c in sorted(exp[1]))))]

def jobs(tier, seed):
    # only histories whose last call is a frame/column call need to be judged at the last step, but every step is judged
    # (start state 7: channel labels that repeat - reachable because the first frame of an undeclared object names the channels)
    return hist_jobs(tier, seed, finish=0, extra_starts=(7,))
def run_job(engine, job): return explore(engine, job, ID, per_step)

def native_confirm(nat, v):
    out, sec = native_sections(nat, v['replay'])
    if out['rc'] != 0: return None if v.get('class') == 'value' else True
    locus = v['id'].split('/', 2)[-1].split('@')[0]
    for k, (b, call, a) in enumerate(steps_of(sec)):
        for o in per_step(k, b, call, a, None, sec):
            if o.bad is True and o.locus == locus: return True
    return False
