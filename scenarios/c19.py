# C19 Results do not depend on optimisation level or library kind (DESIGN.md section 4, C19)
from .common import *
from . import gen, c01, c02
ID = 'C19'
HARNESSES = ['h_c01.cpp', 'h_load.cpp']
LEVEL = 'translation_validation'
def OPTS(tier): return ['O0', 'O1', 'O2'] if tier == 'quick' else ['O0', 'O1', 'O2', 'O3']
BUDGET = {'quick': 290, 'thorough': 3000}
JOB_TIMEOUT = {'quick': 600, 'thorough': 1500}     # one configuration is executed at three (thorough: up to five) optimisation levels
BOUNDS = {'quick': '(compilers) every float -> unsigned 64-bit conversion executed while POINT:RATE and ANALOG:RATE are set to FREE floats on a new object is recorded with the condition operand >= 2^64 (x86-64 has no such instruction before AVX-512; g++ and clang++ emit sequences that disagree there); z3 decides whether the condition can hold at each site and the counterexample is replayed on a g++ -O2 and a clang++-14 -O2 build of the working tree, a site is reported when their observations differ; (optimisation levels) the same linked module (library + harness) encoded from clang-14 IR at -O0, -O1, -O2; corpora: C01 build->write->load configurations (12) and C02/C04 load->save->load files (7 layouts, plus 2 files cut inside their data section like the Optotrak.c3d of the repository) with symbolic payload, run with the SAME symbolic variables on every encoding. For every pair of paths (one per encoding) whose path conditions are jointly satisfiable: same outcome / exception class, observation-for-observation equality and output-byte-for-output-byte equality decided by z3. On the -O0 encoding additionally: no value derived from never-written memory reaches an observation, an output byte or a branch',
          'thorough': 'plus -O3; 27 C01 configurations and every C02 layout'}
OUTSIDE = 'g++ code generation (the project\'s compiler) and the static/shared axis: there is no machine-code or linker model here, stated as reduced strength; vectorised code (vectorisers are off in the encodings)'
ASSUMPTIONS = ['arithmetic that is undefined in ISO C++ (signed overflow and out-of-range float->int in hex2uint) is executed with x86-64 machine semantics on every encoding and LOGGED with its IR location, not failed: a native experiment showed g++ -O0..-O3 and clang agree on it']
RULE = 'one program = one (configuration, optimisation level) encoding; one evaluation = one pair of compatible paths of two encodings'

def jobs(tier, seed):
    out = []
    cj = [j for j in [x for x in c01.jobs('quick', seed) if x.get('name') != 'hist'] if not j['cfg']['symnames'] and j['cfg']['pad'] < 0 and not (j['cfg']['ex_group'] == 1 and j['cfg']['ex_nlen'] > 1) and not is_sweep(j)]
    sel = cj[::5] if tier == 'quick' else cj[::2]
    for j in sel: out.append(dict(j, family='api'))
    names = ('zeros1+block3', 'zero_prologue', 'analog_empty', 'sparse_ids', 'labels_fewer', 'events3', 'no_points') if tier == 'quick' else None
    for j in c02.jobs('quick', seed):
        if (names is None and not is_sweep(j)) or (names is not None and j['name'] in names):
            j = dict(j); j['cfg'] = {'gens': 1, 'dump': 1, 'obsfiles': 0}; j['family'] = 'file'
            if tier == 'thorough': j['opts'] = dict(j['opts'], symbolic_meta=False)
            if tier == 'quick': j['opts'] = dict(j['opts'], extras=j['opts'].get('extras', [])[:1], symbolic_meta=False); j['shape'] = dict(j['shape'], F=1)
            out.append(j)
    # a file shorter than it declares (the repository ships and tests one: Optotrak.c3d is cut inside its data section)
    for name, cut in (('truncated-in-data', 13), ('truncated-last-frame', 40)):
        out.append({'entry': 'h_load', 'harness': 'h_load.cpp', 'name': name, 'cfg': {'gens': 1, 'dump': 1, 'obsfiles': 0}, 'family': 'file', 'truncate': cut,
                    'shape': {'P': 2, 'C': 0, 'sub': 0, 'F': 3}, 'lay': {}, 'opts': {'analog': 'empty', 'symbolic_meta': False}})
    out.append({'entry': 'h_c19_rates', 'harness': 'h_c01.cpp', 'name': 'rates', 'family': 'rates', 'cfg': {}})
    # cross-level kernel: two free POINT:RATE values in [1, 1e6] set one after the other, header rate observed after each
    out.append({'entry': 'h_c19_rates2', 'harness': 'h_c01.cpp', 'name': 'two-rates', 'family': 'api', 'first': 1, 'cfg': {}})
    return out

def run_rates(engine, job):
    """float -> unsigned 64-bit conversion sites reachable with an operand >= 2^64 (free POINT:RATE / ANALOG:RATE)"""
    res = new_result()
    eng = engine('O0'); eng.track_fptoui64 = True
    q0 = eng.sc.queries; t0 = eng.sc.time
    try:
        paths = api.run_fn(eng, job['entry'], cfg=job.get('cfg'), wall=200, maxsteps=100_000_000)
    finally:
        eng.track_fptoui64 = False
    seen = set()
    for r in paths:
        add_path(res, r)
        if r.st is None: continue
        if r.kind in ('TIMEOUT', 'unsupported', 'inconclusive', 'budget'): res['inconclusive'].append('rates at -O0: %s' % describe_end(r))
        for e in r.st.events:
            if e[0] != 'fptoui64-beyond-range': continue
            key = (short_fn(e[1]), e[2])
            if key in seen: continue
            res['obligations'] += 1
            m = eng.sc.check(r.st.pc) if e[3] is True else eng.sc.check(r.st.pc, e[3])
            if m is None: res['discharged'] += 1; continue
            seen.add(key)
            add_violation(res, '%s/rates/compiler-dependent-conversion@%s#%d' % (ID, key[0], key[1]), 'float -> unsigned 64-bit conversion number %d of %s can be reached with an operand >= 2^64 (undefined in ISO C++; g++ and clang++ emit different instruction sequences for it)' % (key[1], key[0]),
                          replay_of(eng, r.st, m, job, None), 'candidate')
    res['sample'] = {'configuration': 'free POINT:RATE and ANALOG:RATE on a new object', 'paths': len(paths), 'conversion_sites_reachable_beyond_range': sorted('%s#%d' % k for k in seen)}
    res['solver_queries'] += eng.sc.queries - q0; res['solver_s'] = eng.sc.time - t0
    res['functions'] = sorted(f for f in eng.fn_executed if 'ezc3d' in f)
    return res

def native_confirm(nat, v):
    """only for the conversion candidates: the same inputs on a g++ and on a clang++ build of the working tree must give different observations"""
    if v.get('class') != 'candidate': return None
    outs = [nat.run(v['replay'], opt='O2', cxx=cxx) for cxx in ('g++', 'clang++-14')]
    if any(o['rc'] != 0 for o in outs): return None
    return outs[0]['obs'] != outs[1]['obs']

def run_job(engine, job):
    if job.get('family') == 'rates': return run_rates(engine, job)
    res = new_result()
    files = None; assume = None
    if job['family'] == 'file':
        S, c, lay, cells = c02.build_file(job)
        if job.get('truncate'): cells = cells[:len(cells) - job['truncate']]
        files = {'in.c3d': gen.to_engine_cells(cells)}; assume = S.cons
    runs = {}; ub = {}
    opts = job['opts_levels']
    q = 0; tsol = 0.0
    for o in opts:
        eng = engine(o)
        eng.track_undef_branches = (o == 'O0')
        q0 = eng.sc.queries; t0 = eng.sc.time
        runs[o] = api.run_fn(eng, job['entry'], cfg=job.get('cfg'), files=files, assume=assume, wall=250 if len(opts) <= 3 else 1200, maxsteps=400_000_000)
        q += eng.sc.queries - q0; tsol += eng.sc.time - t0
        for r in runs[o]:
            add_path(res, r)
            if r.kind in ('TIMEOUT', 'unsupported', 'inconclusive', 'budget'):
                res['inconclusive'].append('%s at -%s: %s' % (job.get('name') or job['cfg'], o, describe_end(r)))
    eng0 = engine('O0')
    base = opts[0]
    # indeterminate values observable at -O0
    for r in runs[base]:
        if r.st is None: continue
        seen = set()
        for e in r.st.events:
            if e[0] in ('branch-on-undefined', 'undefined-byte-written'):
                key = (e[0], short_fn(e[1]) if e[0] == 'branch-on-undefined' else 'offset-class-%d' % (e[2] // 64))
                if key in seen: continue
                seen.add(key); res['obligations'] += 1
                add_violation(res, '%s/%s/indeterminate/%s@%s' % (ID, job['family'], e[0], key[1]), '-O0 encoding: %s' % (e,), replay_of(eng0, r.st, eng0.sc.check(r.st.pc), job, files), 'memory')
        for l, v in r.st.obs:
            if l != '#tag' and has_undef(v):
                res['obligations'] += 1
                add_violation(res, '%s/%s/indeterminate/observation/%s' % (ID, job['family'], l), '-O0 encoding: observation %s derives from never-written memory' % l, replay_of(eng0, r.st, eng0.sc.check(r.st.pc), job, files), 'memory')
    # pairwise equality base vs each other level
    class _S: pass
    for o in opts[1:]:
        for ra in runs[base]:
            if ra.st is None or ra.kind in ('unsupported', 'inconclusive', 'budget'): continue
            for rb in runs[o]:
                if rb.st is None or rb.kind in ('unsupported', 'inconclusive', 'budget'): continue
                ids = set(c.get_id() for c in ra.st.pc)
                pc = list(ra.st.pc) + [c for c in rb.st.pc if c.get_id() not in ids]
                if eng0.sc.check(pc) is None: continue
                st = _S(); st.pc = pc
                res['pairs'] = res.get('pairs', 0) + 1
                O = [Obl('outcome/-%s' % o, (ra.kind, str(ra.info)) != (rb.kind, str(rb.info)), 'path ends with %s at -%s and with %s at -%s' % (describe_end(ra), base, describe_end(rb), o))]
                if ra.kind == rb.kind:
                    def norm(obs): return [(l, list(v.encode()) if l == '#tag' else ([cell_value(c) if type(c) is tuple else c for c in v] if type(v) is list else v)) for l, v in obs]
                    oa = norm(ra.st.obs); ob = norm(rb.st.obs)
                    O += compare(oa, ob, 'observations/-%s' % o)
                    for fn in set(ra.st.files) | set(rb.st.files):
                        if fn == 'in.c3d': continue
                        x = [cell_value(c) for c in ra.st.files.get(fn, [])]; y = [cell_value(c) for c in rb.st.files.get(fn, [])]
                        if len(x) != len(y): O.append(Obl('files/-%s' % o, True, '%s has %d bytes at -%s and %d at -%s' % (fn, len(x), base, len(y), o))); continue
                        for k, (p_, q_) in enumerate(zip(x, y)):
                            if p_ is None or q_ is None: O.append(Obl('files/-%s' % o, p_ is not q_, 'byte %d of %s undefined on one encoding' % (k, fn)))
                            else: O.append(Obl('files/-%s' % o, neq(p_, q_), 'byte %d of %s' % (k, fn)))
                for ob_, m in decide(eng0, st, O, res):
                    add_violation(res, '%s/%s/%s' % (ID, job['family'], ob_.locus), '%s: %s' % (job.get('name') or {k: v for k, v in job['cfg'].items() if v}, ob_.detail), replay_of(eng0, ra.st, m, job, files))
    for o in opts:
        cnt = {}
        for r in runs[o]:
            if r.st is None: continue
            for e in r.st.events:
                if e[0] in ('signed-overflow', 'fp-to-int-out-of-range'): cnt[e[0]] = cnt.get(e[0], 0) + 1
        ub[o] = cnt
    res['sample'] = {'configuration': job.get('name') or {k: v for k, v in job['cfg'].items() if v}, 'levels': opts, 'paths_per_level': {o: len(runs[o]) for o in opts}, 'compatible_pairs': res.get('pairs', 0), 'ub_events_logged_per_level': ub}
    res['solver_queries'] += q; res['solver_s'] = tsol
    res['functions'] = sorted(f for f in engine(base).fn_executed if 'ezc3d' in f)
    return res

def extra_validation(nat, results, tier):
    return 0, []
