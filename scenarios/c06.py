# C06 Adding a frame appends, replaces or extends exactly as documented (DESIGN.md section 4, C06)
from .common import *
from oracle import obsmodel
ID = 'C06'
HARNESSES = ['h_c06.cpp']
LEVEL = 'model_checking'
BUDGET = {'quick': 200, 'thorough': 1500}
BOUNDS = {'quick': 'data sets of n = 0..3 frames (2 points x 1 channel x 1-2 sub-frames), all floats symbolic; target index a free 64-bit variable constrained only by idx <= n+3; append; point/channel columns by frames and by name, also after an indexed store 3 beyond the end (gap frames); the same store idiom of Points, Analogs and SubFrame with a free index; Data::frame with points-only / analogs-only / empty frames at every index',
          'thorough': 'n = 0..5, shapes up to 3 points x 2 channels x 2 sub-frames, idx <= n+5'}
OUTSIDE = 'indices beyond n+3 (n+5): they only add more empty frames (allocation size is C16/C17 matter); n > 3 (5)'
ASSUMPTIONS = ['the frame given carries the declared shape (C07 covers deviations)']

def jobs(tier, seed):
    out = []
    top = 3 if tier == 'quick' else 5
    # every shape up to 2 points x 2 channels x 2 sub-frames (thorough: up to 3 x 2 x 3)
    shapes = [(p, c, s) for p in range(3 if tier == 'quick' else 4) for c in range(3) for s in ((1, 2) if tier == 'quick' else (1, 2, 3)) if (p or c) and not (c == 0 and s > 1)]
    for (P, C, S) in shapes:
        for n in range(top + 1):
            for mode in range(8):
                if mode >= 2 and n == 0: continue
                if mode >= 6 and (P == 0 or n > 2): continue
                if mode in (3, 5) and C == 0: continue
                if mode in (2, 4) and P == 0: continue
                if mode in (2, 3) and n >= 2:
                    out.append({'entry': 'h_c06', 'harness': 'h_c06.cpp', 'name': ['point-column', 'channel-column'][mode - 2] + '-with-surplus-in-last-frame', 'cfg': {'n': n, 'mode': mode, 'P': P, 'C': C, 'S': S, 'beyond': 3, 'surplus': 1, 'ncols': 1}})
                out.append({'entry': 'h_c06', 'harness': 'h_c06.cpp', 'name': ['append', 'indexed', 'point-column', 'channel-column', 'point-by-name', 'channel-by-name', 'gap-then-point-by-name', 'gap-then-point-column'][mode],
                            'cfg': {'n': n, 'mode': mode, 'P': P, 'C': C, 'S': S, 'beyond': 3 if tier == 'quick' else 5, 'surplus': 0, 'ncols': 1}})
                if mode in (2, 3):
                    out.append({'entry': 'h_c06', 'harness': 'h_c06.cpp', 'name': ['point-column', 'channel-column'][mode - 2] + '-two-columns-in-one-call', 'cfg': {'n': n, 'mode': mode, 'P': P, 'C': C, 'S': S, 'beyond': 3, 'surplus': 0, 'ncols': 2}})
    for n in (1, 2, 3):
        for variant in (0, 1, 2, 3):
            for where in [-1] + list(range(n + 2)):
                out.append({'entry': 'h_c06_data', 'harness': 'h_c06.cpp', 'name': 'data-store-' + ['points-only', 'analogs-only', 'empty', 'full'][variant], 'cfg': {'n': n, 'variant': variant, 'where': where, 'mode': 1 if where >= 0 else 0, 'P': 2, 'C': 1, 'S': 2}})
    for kind in (0, 1, 2):
        for n in range(top + 1):
            for append in (0, 1):
                out.append({'entry': 'h_c06_inner', 'harness': 'h_c06.cpp', 'name': ['points', 'subframes', 'channels'][kind] + ('-append' if append else '-indexed'), 'cfg': {'kind': kind, 'n': n, 'append': append, 'beyond': 3, 'self': 0}})
                if n >= 1: out.append({'entry': 'h_c06_inner', 'harness': 'h_c06.cpp', 'name': ['points', 'subframes', 'channels'][kind] + ('-append' if append else '-indexed') + '-own-element', 'cfg': {'kind': kind, 'n': n, 'append': append, 'beyond': 3, 'self': 1}})
    return out

def inner_obligations(sec, job, st, idx, resolve=lambda v: v):
    cfg = job['cfg']; n = cfg['n']; kind = cfg['kind']
    ins = [v for l, v in sec['in'] if l == 'in']; new = dict(sec['in'])['new']
    out = sec['out']; count = resolve(dict(out)['count'])
    xs = [v for l, v in out if l == 'x']; O = []
    nm = 'inner/' + ['points', 'subframes', 'channels'][kind]
    exp_count = n + 1 if cfg['append'] else (n if idx < n else idx + 1)
    tgt = n if cfg['append'] else idx
    O.append(Obl(nm + '/count', count != exp_count, 'store at %s in %d elements gives %s, expected %d' % ('end' if cfg['append'] else idx, n, count, exp_count)))
    if count != exp_count: return O
    if kind == 1:
        ns = [resolve(v) for l, v in out if l == 'n']; k = 0
        for i in range(exp_count):
            if i == tgt: O.append(Obl(nm + '/target', ns[i] != 1 or neq(new, xs[k]), 'stored sub-frame %d' % i)); k += 1
            elif i < n: O.append(Obl(nm + '/others-unchanged', ns[i] != 1 or neq(ins[i], xs[k]), 'sub-frame %d' % i)); k += 1
            else: O.append(Obl(nm + '/gap-empty', ns[i] != 0, 'gap sub-frame %d holds %s channels' % (i, ns[i])))
        return O
    for i in range(exp_count):
        if i == tgt: O.append(Obl(nm + '/target', neq(new, xs[i]), 'stored element %d' % i))
        elif i < n: O.append(Obl(nm + '/others-unchanged', neq(ins[i], xs[i]), 'element %d' % i))
        elif kind == 0: O.append(Obl(nm + '/gap-empty', neq(0, xs[i]), 'gap point %d is not zero' % i))
    if kind == 0:
        rs = [v for l, v in out if l == 'r']
        for i in range(exp_count):
            if i == tgt: O.append(Obl(nm + '/target', neq(new, rs[i]), 'residual of stored point %d' % i))
            elif i < n: O.append(Obl(nm + '/others-unchanged', neq(ins[i], rs[i]), 'residual of point %d' % i))
    return O

def frames_of(sec):
    return obsmodel.parse_dump(sec)['frames'] or []

def frame_eq(prefix, exp, got, detail, extra_point=None, extra_channel=None):
    """obligations: frame got == frame exp (optionally with one more point / channel at the end)"""
    O = []
    def o(name, a, b, d): O.append(Obl('%s/%s' % (prefix, name), neq(a, b), '%s: %s' % (detail, d)))
    ep = list(exp['points']) + (list(extra_point) if type(extra_point) is list else [extra_point] if extra_point else [])
    o('nbPoints', len(ep), got['nbPoints'], 'point count')
    for i, (a, b) in enumerate(zip(ep, got['points'])):
        for k in ('x', 'y', 'z', 'residual'):
            if k in a: o('pt.' + k, a[k], b[k], '%s of point %d' % (k, i))
        if 'name' in a and 'name' in b: O.extend(obsmodel.eq_list(prefix + '/pt.name', a['name'], b['name'], '%s: name of point %d' % (detail, i)))
    es = exp['subframes']
    o('nbSubframes', len(es), got['nbSubframes'], 'sub-frame count')
    for s, (sa, sb) in enumerate(zip(es, got['subframes'])):
        sa = list(sa) + ((list(extra_channel[s]) if type(extra_channel[s]) is list else [extra_channel[s]]) if extra_channel else [])
        if len(sa) != len(sb): O.append(Obl(prefix + '/nbChannels', True, '%s: sub-frame %d has %d channels, expected %d' % (detail, s, len(sb), len(sa)))); continue
        for i, (a, b) in enumerate(zip(sa, sb)):
            if 'data' in a: o('ch.data', a['data'], b['data'], 'channel %d of sub-frame %d' % (i, s))
            if 'name' in a and 'name' in b: O.extend(obsmodel.eq_list(prefix + '/ch.name', a['name'], b['name'], '%s: name of channel %d' % (detail, i)))
    return O

ZERO_POINT = {'x': 0, 'y': 0, 'z': 0, 'residual': 0}
def obligations(sec, job, st, idx=None):
    cfg = job['cfg']; n = cfg['n']; mode = cfg['mode']
    B = frames_of(sec['before']); A = frames_of(sec['after'])
    O = []
    if mode in (0, 1):
        G = frames_of([('dat.nbFrames', 1)] + sec['given'])[0]
        if mode == 0:
            O.append(Obl('append/count', len(A) != n + 1, 'append to %d frames gives %d' % (n, len(A))))
            if len(A) == n + 1: O += frame_eq('append/new-frame', G, A[n], 'appended frame')
            for k in range(min(n, len(A))): O += frame_eq('append/others-unchanged', B[k], A[k], 'frame %d after an append' % k)
        else:
            if idx < n:
                O.append(Obl('replace/count', len(A) != n, 'replace at %d in %d frames gives %d' % (idx, n, len(A))))
                for k in range(min(n, len(A))):
                    if k == idx: O += frame_eq('replace/target', G, A[k], 'replaced frame %d' % k)
                    else: O += frame_eq('replace/others-unchanged', B[k], A[k], 'frame %d after replacing frame %d' % (k, idx))
            else:
                O.append(Obl('extend/count', len(A) != idx + 1, 'store at %d in %d frames gives %d frames' % (idx, n, len(A))))
                if len(A) == idx + 1:
                    O += frame_eq('extend/target', G, A[idx], 'frame stored at index %d' % idx)
                    for k in range(n): O += frame_eq('extend/others-unchanged', B[k], A[k], 'frame %d after extending to %d' % (k, idx + 1))
                    for k in range(n, idx):
                        O.append(Obl('extend/gap-empty', A[k]['nbPoints'] != 0 or A[k]['nbSubframes'] != 0, 'gap frame %d holds %s points, %s sub-frames' % (k, A[k]['nbPoints'], A[k]['nbSubframes'])))
    elif mode in (6, 7):
        E = frames_of(sec['extended'])
        O.append(Obl('gap-column/count', len(A) != len(E), 'column add changes the frame count %d -> %d' % (len(E), len(A))))
        G = obsmodel.parse_dump([('dat.nbFrames', len(E))] + sec['given'])['frames'] if mode == 7 else None
        for k in range(min(len(E), len(A))):
            ep = dict(ZERO_POINT, name=list(b'newp')) if mode == 6 else G[k]['points'][0]
            O += frame_eq('gap-column/one-column-per-frame', E[k], A[k], 'frame %d (of %d, %d created as gap frames) after adding one point column' % (k, len(E), len(E) - n - 1), extra_point=ep)
    else:
        O.append(Obl('column/count', len(A) != n, 'column add changes the frame count %d -> %d' % (n, len(A))))
        if mode in (2, 3) and dict(sec['call'])['refused']:
            # only a ragged argument may be refused, and a refused call changes nothing
            O.append(Obl('column/refused', not cfg.get('surplus'), 'a well-formed column was refused'))
            for k in range(min(n, len(A))): O += frame_eq('column/refused-unchanged', B[k], A[k], 'frame %d after a refused column add' % k)
            return O
        if mode in (2, 3):
            G = obsmodel.parse_dump([('dat.nbFrames', n)] + sec['given'])['frames']
        for k in range(min(n, len(A))):
            nc = cfg.get('ncols', 1)
            if mode == 2: O += frame_eq('column/point', B[k], A[k], 'frame %d after adding %d point column(s)' % (k, nc), extra_point=G[k]['points'][:nc])
            elif mode == 3: O += frame_eq('column/channel', B[k], A[k], 'frame %d after adding %d channel column(s)' % (k, nc), extra_channel=[sf[:nc] for sf in G[k]['subframes']])
            elif mode == 4: O += frame_eq('column/point-by-name', B[k], A[k], 'frame %d after point(name)' % k, extra_point=dict(ZERO_POINT, name=list(b'newp')))
            elif mode == 5: O += frame_eq('column/channel-by-name', B[k], A[k], 'frame %d after analog(name)' % k, extra_channel=[{'data': 0, 'name': list(b'newa')} for _ in A[k]['subframes']])
    return O

def run_job(engine, job):
    eng = engine('O1')
    if job['entry'] == 'h_c06_data':
        return std_run(engine, job, lambda sec, job, st: obligations(sec, job, st, job['cfg']['where']), 'c06.end', ID, job['name'])
    if job['entry'] == 'h_c06_inner':
        def obl2(sec, job, st):
            v = dict(sec['in'])['idx']
            rs = lambda x: x if is_c(x) else eng.concretize(st, x, 1)[0]
            return inner_obligations(sec, job, st, rs(v), rs)
        return std_run(engine, job, obl2, 'c06.end', ID, job['name'], fatal_as='violation')
    def obl(sec, job, st):
        idx = None
        if job['cfg']['mode'] == 1:
            v = dict(sec['call'])['idx']
            idx = v if is_c(v) else eng.concretize(st, v, 1)[0]
        return obligations(sec, job, st, idx)
    return std_run(engine, job, obl, 'c06.end', ID, job['name'])

def native_confirm(nat, v):
    out, sec = native_sections(nat, v['replay'])
    if out['rc'] != 0: return None
    if v['job']['entry'] == 'h_c06_data':
        obls = obligations(sec, v['job'], None, v['job']['cfg']['where'])
        return any(o.bad is True and o.locus == v['id'].split('/', 2)[-1] for o in obls)
    if v['job']['entry'] == 'h_c06_inner':
        obls = inner_obligations(sec, v['job'], None, dict(sec['in'])['idx'])
        return any(o.bad is True and o.locus == v['id'].split('/', 2)[-1] for o in obls)
    idx = dict(sec.get('call', [])).get('idx')
    obls = obligations(sec, v['job'], None, idx)
    locus = v['id'].split('/', 2)[-1]
    return any(o.bad is True and o.locus == locus for o in obls)
