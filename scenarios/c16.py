# C16 Damaged files are refused or loaded, never crash or hang (DESIGN.md section 4, C16)
from .common import *
from . import gen
from oracle import c3dref
ID = 'C16'
HARNESSES = ['h_load.cpp']
LEVEL = 'model_checking'
BUDGET = {'quick': 290, 'thorough': 3400}
BOUNDS = {'quick': 'base files: reference-encoded 2x1x2x2 with int/float/2-D char parameters and descriptions (1.5 KB), and an Optotrak-style file with an empty ANALOG group. Mutations, one per run: (a) every header field and every parameter-record field (name length, group id, next-offset, type, number of dimensions, each dimension, description length, block count, processor byte) replaced by FREE bytes; fields whose free exploration exceeds 300 paths / 25 s fall back to the boundary values {0,1,0x7F,0x80,0xFF | 0x7FFF,0x8000,0xFFFF}; (a2) the dimension block of every parameter set to 7 dimensions of 255, also with the file cut after it; (b) a free byte at every 16th offset of header and parameter section; (c) truncation at every length 0..size (every 5th length in the header and parameter section, every 16th in the data); (d) fully symbolic files of 0..6 bytes',
          'thorough': 'both base files, (b) every offset, pairs length x offset, (d) up to 8 bytes'}
OUTSIDE = 'three or more damaged bytes at once; base files above 2 KB; damage whose only effect is a declared data size larger than the bytes present is recorded as a known finding (the pinned tests load such a file)'
ASSUMPTIONS = ['allowed outcomes: normal return or an exception derived from std::exception', 'resource rule: an allocation whose size depends on input and can exceed max(1 MiB, 64 x file size), or more than 2000 x (size + 1024) IR steps on one path, is a violation']

def base_file(which):
    S = gen.Syms(concrete=True, seed=11)
    if which == 'full':
        ex = [{'name': 'INTS', 'type': 2, 'dims': [2, 2], 'desc_len': 3, 'locked': True}, {'name': 'REALS', 'type': 4, 'dims': [2], 'desc_len': 1},
              {'name': 'STR2D', 'type': -1, 'dims': [4, 2], 'slen': 3, 'desc_len': 2}, {'name': 'BYTES', 'type': 1, 'dims': [3], 'desc_len': 0}]
        c = gen.make_content(S, P=2, C=1, sub=2, F=2, extras=ex, symbolic_meta=True)
    else:
        c = gen.make_content(S, P=2, C=0, sub=0, F=2, analog='empty', symbolic_meta=True)
    cells = c3dref.encode_with_data_start(c, c3dref.Layout())
    return cells

def fields_of(cells):
    """[(name, [offsets])] for every header field and parameter-record field of a well-formed file"""
    D = c3dref.decode(cells); out = []
    H = [('header.param_block', [0]), ('header.key', [1]), ('header.points', [2, 3]), ('header.analog_total', [4, 5]), ('header.first', [6, 7]), ('header.last', [8, 9]), ('header.gap', [10, 11]),
         ('header.scale', [12, 13, 14, 15]), ('header.data_start', [16, 17]), ('header.sub', [18, 19]), ('header.rate', [20, 21, 22, 23]), ('header.key_label', [294, 295]), ('header.nb_events', [300, 301])]
    out += H
    ps = 512 * (D['H']['param_block'] - 1)
    out += [('param.start_byte', [ps]), ('param.key', [ps + 1]), ('param.blocks', [ps + 2]), ('param.processor', [ps + 3])]
    for kind, *rest in D['order']:
        if kind == 'g':
            g = D['groups'][rest[0]]; pos = g['pos']; n = len(g['name']); nm = 'group[%s]' % bytes(g['name']).decode()
            out += [(nm + '.name_len', [pos]), (nm + '.id', [pos + 1]), (nm + '.next', [pos + 2 + n, pos + 3 + n]), (nm + '.desc_len', [pos + 4 + n])]
        else:
            p = D['params'][rest[1]]; pos = p['pos']; n = len(p['name']); gname = bytes(D['groups'][p['gid']]['name']).decode()
            nm = 'param[%s:%s]' % (gname, bytes(p['name']).decode()); q = pos + 2 + n
            out += [(nm + '.name_len', [pos]), (nm + '.id', [pos + 1]), (nm + '.next', [q, q + 1]), (nm + '.type', [q + 2]), (nm + '.ndims', [q + 3])]
            for k in range(len(p['dims'])): out.append((nm + '.dim%d' % k, [q + 4 + k]))
            w = 1 if p['type'] in (-1, 1) else p['type']
            out.append((nm + '.desc_len', [p['valpos'] + len(p['values']) * w]))
            if p['values']: out.append((nm + '.value0', list(range(p['valpos'], p['valpos'] + w))))
    return out, D

BOUNDARY8 = [0, 1, 2, 3, 0x7F, 0x80, 0xFF]; BOUNDARY16 = [0, 1, 2, 3, 0x7F, 0x80, 0xFF, 0x7FFF, 0x8000, 0xFFFF, 0x0100]

def jobs(tier, seed):
    out = []
    bases = ['full', 'optotrak'] if tier == 'thorough' else ['full', 'optotrak']
    for b in bases:
        cells = base_file(b); fl, D = fields_of(cells)
        pend = 512 * (D['H']['param_block'] - 1) + 512 * D['H']['param_blocks']
        if tier == 'quick' and b == 'optotrak':
            fl = [f for f in fl if f[0].startswith('header.') or f[0].startswith('param.') or 'ANALOG' in f[0] or 'USED' in f[0] or 'LABELS' in f[0] or 'FRAMES' in f[0]]
        for name, offs in fl:
            out.append({'entry': 'h_load', 'harness': 'h_load.cpp', 'name': 'field', 'base': b, 'field': name, 'offs': offs, 'cfg': {'gens': 0, 'dump': 0, 'obsfiles': 0}})
        # (a2) the dimension block of every parameter record set to its maximum (7 dimensions of 255), on the whole file and on
        # the file cut right after the block
        for p in D['params']:
            n = len(p['name']); q = p['pos'] + 2 + n + 2 + 1
            gname = bytes(D['groups'][p['gid']]['name']).decode(); nm = 'param[%s:%s].dimblock' % (gname, bytes(p['name']).decode())
            for cut in (0, 1):
                out.append({'entry': 'h_load', 'harness': 'h_load.cpp', 'name': 'dimblock', 'base': b, 'field': nm + ('+cut' if cut else ''), 'offs': list(range(q, q + 8)), 'vals': [7] + [255] * 7, 'cut': (q + 8 + 32) if cut else None, 'cfg': {'gens': 0, 'dump': 0, 'obsfiles': 0}})
        # (b) sliding window of one free byte
        last_rec = max([p['pos'] for p in D['params']] + [512]) + 64
        step = 1 if tier == 'thorough' else 16
        if tier == 'thorough' or b == 'full':
            for o in list(range(0, 512, step)) + list(range(512, min(last_rec, pend), step)):
                out.append({'entry': 'h_load', 'harness': 'h_load.cpp', 'name': 'window', 'base': b, 'field': 'byte@%d' % o, 'offs': [o], 'cfg': {'gens': 0, 'dump': 0, 'obsfiles': 0}})
        # (c) truncation
        n = len(cells)
        Ts = list(range(0, min(pend, n) + 1, 1 if tier == 'thorough' else (5 if b == 'full' else 17))) + list(range(pend, n + 1, 16))
        for chunk in range(0, len(Ts), 40):
            out.append({'entry': 'h_load', 'harness': 'h_load.cpp', 'name': 'truncate', 'base': b, 'lengths': Ts[chunk:chunk + 40], 'cfg': {'gens': 0, 'dump': 0, 'obsfiles': 0}})
        # (e) two damages at once among the parameters the loader itself consumes: one of them emptied (its dimension count 0 -> the size of its
        # value, so that the value bytes are read as extents; one of them is 0, the parameter then holds no value and the record keeps its length)
        # while every byte of the first value of another one is free
        fd = dict(fl)
        mand = [m for m in ('POINT:USED', 'POINT:RATE', 'POINT:FRAMES', 'POINT:SCALE', 'ANALOG:USED', 'ANALOG:RATE', 'ANALOG:GEN_SCALE') if 'param[%s].ndims' % m in fd and 'param[%s].value0' % m in fd]
        if tier == 'thorough' or b == 'full':
            for a_ in mand:
                for b_ in mand:
                    if a_ == b_: continue
                    nd = fd['param[%s].ndims' % a_][0]; va = fd['param[%s].value0' % a_]
                    if not any(is_c(cells[o]) and cells[o] == 0 for o in va): continue
                    out.append({'entry': 'h_load', 'harness': 'h_load.cpp', 'name': 'field', 'base': b, 'field': 'param[%s].emptied+param[%s].value0' % (a_, b_), 'fixed': [(nd, len(va))],
                                'offs': fd['param[%s].value0' % b_], 'cfg': {'gens': 0, 'dump': 0, 'obsfiles': 0}})
        if tier == 'thorough':
            # pairs: a length field x an offset/count field
            lens = [f for f in fl if f[0].endswith('name_len') or f[0].endswith('desc_len') or f[0].endswith('ndims')][:12]
            offs2 = [f for f in fl if f[0].endswith('.next') or f[0].endswith('.dim0') or f[0] in ('param.blocks', 'header.points')][:8]
            for a in lens:
                for c_ in offs2:
                    if set(a[1]) & set(c_[1]): continue
                    out.append({'entry': 'h_load', 'harness': 'h_load.cpp', 'name': 'pair', 'base': b, 'field': a[0] + '+' + c_[0], 'offs': a[1] + c_[1], 'cfg': {'gens': 0, 'dump': 0, 'obsfiles': 0}, 'boundary_only': True})
    for n in range(0, 7 if tier == 'quick' else 9):
        out.append({'entry': 'h_load', 'harness': 'h_load.cpp', 'name': 'tiny', 'base': 'none', 'field': 'all %d bytes' % n, 'nbytes': n, 'cfg': {'gens': 0, 'dump': 0, 'obsfiles': 0}})
    return out

DATA_CTOR = '_ZN5ezc3d6DataNS4DataC'
def classify(r, size):
    """None if the path outcome is allowed, else (locus, detail)"""
    if r.kind == 'return': return None
    x = classify0(r, size)
    if r.st is not None and any(f.fn.name.startswith(DATA_CTOR) for f in r.st.frames) and r.kind in ('budget', 'resource'):
        return (x[0].split('@')[0] + '@while-reading-declared-data', x[1])
    return x
def classify0(r, size):
    i = r.info
    if r.kind == 'uncaught': return ('uncaught-non-std-exception', str(i))
    fn = short_fn(i[-1]) if type(i) is tuple and len(i) > 1 else ''
    if r.kind == 'budget':
        fn = short_fn(r.st.where()) if r.st else ''
        return ('budget@' + fn, 'more IR steps than 2000 x (size + 1024): %s' % (i,))
    return ('%s/%s@%s' % (r.kind, i[0] if type(i) is tuple else i, fn), describe_end(r))

def run_one(eng, job, res, cells, assume, label, cap_paths=300, cap_wall=25):
    size = len(cells)
    eng.max_alloc = max(1 << 20, 64 * size)
    files = {'in.c3d': gen.to_engine_cells(cells)}
    budget = 2000 * (size + 1024)
    paths = api.run_fn(eng, job['entry'], cfg=job['cfg'], files=files, assume=assume, wall=cap_wall, maxpaths=cap_paths, maxsteps=budget, tainted=True)
    cut = any(r.kind in ('TIMEOUT', 'unsupported', 'inconclusive') for r in paths)
    for r in paths:
        if r.kind in ('TIMEOUT', 'unsupported', 'inconclusive'): continue
        add_path(res, r); res['obligations'] += 1
        bad = classify(r, size)
        if bad is None: res['discharged'] += 1; continue
        m = eng.sc.check(r.st.pc)
        vid = '%s/%s/%s/%s/%s' % (ID, job['base'], job['name'], label, bad[0])
        add_violation(res, vid, '%s: %s' % (label, bad[1]), replay_of(eng, r.st, m, job, files), 'memory')
    return cut, len(paths)

def run_job(engine, job):
    eng = engine('O1')
    res = new_result(); q0 = eng.sc.queries; t0 = eng.sc.time
    try:
        if job['name'] == 'truncate':
            base = base_file(job['base'])
            for T in job['lengths']:
                run_one(eng, job, res, base[:T], None, 'length=%d' % T)
            res['sample'] = {'mutation': 'truncation', 'base': job['base'], 'lengths': job['lengths'][:5]}
        elif job['name'] == 'dimblock':
            cells = list(base_file(job['base']))
            for o, v in zip(job['offs'], job['vals']): cells[o] = v
            if job['cut']: cells = cells[:job['cut']]
            cut, _n = run_one(eng, job, res, cells, None, job['field'], cap_paths=50, cap_wall=120)
            if cut: res['inconclusive'].append('%s %s: exploration cut (not decided)' % (job['base'], job['field']))
            res['sample'] = {'mutation': 'dimension block set to 7 x 255', 'field': job['field']}
        elif job['name'] == 'tiny':
            n = job['nbytes']; vs = [z3.BitVec('b%d' % k, 8) for k in range(n)]
            cut, np = run_one(eng, job, res, vs, None, 'free', cap_paths=3000, cap_wall=120)
            if cut: res['inconclusive'].append('fully symbolic %d-byte file: exploration cut' % n)
            res['sample'] = {'mutation': 'fully symbolic file', 'bytes': n, 'paths': np}
        else:
            base = list(base_file(job['base'])); offs = job['offs']
            for o, v in job.get('fixed', []): base[o] = v          # a second, concrete damage applied first
            mode = 'boundary' if job.get('boundary_only') else 'free'
            if mode == 'free':
                cells = list(base); vs = []
                for o in offs:
                    v = z3.BitVec('b%d' % o, 8); vs.append(v); cells[o] = v
                r2 = new_result()
                cut, np = run_one(eng, job, r2, cells, None, job['field'])
                if not cut:
                    for k in ('paths', 'nontrivial', 'obligations', 'discharged', 'steps', 'forks'): res[k] += r2[k]
                    for k, v in r2['kinds'].items(): res['kinds'][k] = res['kinds'].get(k, 0) + v
                    res['violations'] += r2['violations']
                    res['sample'] = {'mutation': 'free bytes', 'field': job['field'], 'offsets': offs, 'paths': np}
                else:
                    mode = 'boundary'; res['fallback'] = 1
            if mode == 'boundary':
                import itertools
                if len(offs) == 1: vals = [[v] for v in BOUNDARY8]
                elif len(offs) == 2 and job['name'] != 'pair': vals = [[v & 255, v >> 8] for v in BOUNDARY16]
                elif job['name'] == 'pair':
                    half = len(offs) // 2 if len(offs) % 2 == 0 else 1
                    a = offs[:len(offs) - (2 if len(offs) >= 3 else 1)] if False else None
                    vals = [list(x) for x in itertools.product(*[[0, 1, 0x7F, 0x80, 0xFF]] * len(offs))][:125]
                else: vals = [[v] * len(offs) for v in BOUNDARY8] + [[0xFF] * (len(offs) - 1) + [0x7F], [0] * (len(offs) - 1) + [0x80]]
                for vv in vals:
                    cells = list(base)
                    for o, v in zip(offs, vv): cells[o] = v
                    cut, _n = run_one(eng, job, res, cells, None, '%s=%s' % (job['field'], '/'.join('%02x' % v for v in vv)), cap_paths=200, cap_wall=90)
                    if cut: res['inconclusive'].append('%s %s=%s: exploration cut (not decided)' % (job['base'], job['field'], vv))
                res['sample'] = {'mutation': 'boundary values', 'field': job['field'], 'offsets': offs, 'values_tried': len(vals)}
    except Unsupported as e:
        res['inconclusive'].append('%s %s: unsupported: %s' % (job['name'], job.get('field'), e))
    res['solver_queries'] += eng.sc.queries - q0; res['solver_s'] = eng.sc.time - t0
    res['functions'] = sorted(f for f in eng.fn_executed if 'ezc3d' in f)
    return res

def native_confirm(nat, v):
    """run the concrete damaged file through the real library under AddressSanitizer with a time and memory cap"""
    rp = v['replay']
    import os, tempfile, subprocess, shutil, resource
    exe = nat.exe(rp['harness'], rp['entry'], extra=('-fsanitize=address', '-fno-omit-frame-pointer'), cxx='clang++-14')
    d = tempfile.mkdtemp(dir=nat.workdir)
    try:
        with open(os.path.join(d, 'replay.txt'), 'w') as fh:
            for k, val in rp.get('cfg', {}).items(): fh.write('cfg %s %d\n' % (k, val))
        for fn, hx in rp.get('files', {}).items(): open(os.path.join(d, fn), 'wb').write(bytes.fromhex(hx))
        e = dict(os.environ); e['VP_REPLAY'] = os.path.join(d, 'replay.txt'); e['ASAN_OPTIONS'] = 'allocator_may_return_null=0:max_allocation_size_mb=256:detect_leaks=0:exitcode=77'
        size = len(bytes.fromhex(rp['files'].get('in.c3d', '')))
        try:
            r = subprocess.run([exe], cwd=d, env=e, capture_output=True, timeout=20)
        except subprocess.TimeoutExpired:
            return True       # a %d-byte file that needs more than 20 s natively: the hang is real
        if r.returncode not in (0, 1): return True     # sanitizer report (77) / crash (signal) / uncaught exception (10, 11)
        return False
    finally:
        shutil.rmtree(d, ignore_errors=True)
