# Shared by the history-based checks C05, C07, C10 (DESIGN.md section 3, "History alphabet").
from .common import *
from . import gen
from oracle import c3dref, obsmodel, contract

HARNESSES = ['h_hist.cpp']
NOPS = 58
OP_NAMES = {0: 'frame(declared shape)', 1: 'frame(one point too few)', 2: 'frame(one point too many)', 3: 'frame(last point renamed)', 4: 'frame(last point duplicates the first)',
            5: 'frame(empty)', 6: 'frame(points only)', 7: 'frame(analogs only)', 8: 'frame(one channel too few)', 9: 'frame(one channel too many)',
            10: 'frame(f, 0)', 11: 'frame(f, last)', 12: 'frame(f, count)', 13: 'frame(f, count+2)', 14: 'frame(one point too many, 0)',
            15: 'point(frames)', 16: 'point(frames, one frame short)', 17: 'point(empty vector)', 18: 'point(frames, existing name)', 19: 'point(frames, second name exists)',
            20: 'analog(frames)', 21: 'analog(frames, one frame short)', 22: 'analog(frames, one sub-frame short)', 23: 'analog(empty vector)', 24: 'analog(frames, existing name)', 25: 'analog(frames, second name exists)',
            26: 'POINT:RATE=0', 27: 'POINT:RATE=50', 28: 'POINT:RATE=100', 29: 'ANALOG:RATE=0', 30: 'ANALOG:RATE=100', 31: 'ANALOG:RATE=200',
            32: 'parameter(new group)', 33: 'parameter(POINT, new)', 34: 'parameter(POINT, replace with other type)', 35: 'parameter(unnamed)', 36: 'parameter(untyped, new group)', 37: 'parameter(untyped, POINT)',
            38: 'lockGroup(POINT)', 39: 'lockGroup(unknown)', 40: 'point(name)', 41: 'point(existing name)', 42: 'analog(name)', 43: 'save+reload', 44: 'point(frames, two new points, last frame lacks the second)', 45: 'analog(frames, two new channels, last sub-frame lacks the second)', 46: 'ANALOG:RATE=300', 47: 'frame(first point renamed)', 48: 'frame(one point too few, last)', 49: 'frame(last point renamed, 0)', 50: 'point(frames, one frame too many)', 51: 'point(frames, name of the last label)', 52: 'analog(frames, one frame too many)', 53: 'analog(frames, name of the last label)', 54: 'point(frames, last frame carries a stray extra point)', 55: 'analog(frames, last frame carries a stray extra channel)', 56: 'analog(existing name)', 57: 'point(name with a trailing space)'}
START_NAMES = {0: 'fresh', 1: 'declared', 2: 'populated', 3: 'loaded', 4: 'loaded (fewer labels than points)', 5: 'loaded (empty ANALOG group)', 6: 'loaded (ANALOG:SCALE padded, ANALOG:UNITS unfilled)', 7: 'populated, two channels declared under the same name', 8: 'loaded (ANALOG:SCALE padded by three entries, ANALOG:UNITS unfilled)', 9: 'loaded (more labels than points)'}

PARTIAL_ANALOG_OPS = (29, 30, 31, 46)     # ANALOG:RATE set on an object whose ANALOG group has no parameter: partially declared group, outside the claim
def hist_jobs(tier, seed, depth_q=2, depth_t=3, finish=1, dupdeclare=0, extra_starts=()):
    out = []
    depth = depth_q if tier == 'quick' else depth_t
    # quick: start 6 stands in for start 3 (it is the same file with deviating ANALOG list lengths); thorough: all seven
    for start in ((0, 1, 2, 4, 5, 6) if tier == 'quick' else (0, 1, 2, 3, 4, 5, 6)) + tuple(extra_starts):
        for op in range(NOPS):
            if start == 5 and op in PARTIAL_ANALOG_OPS: continue
            if depth >= 3:
                for op2 in range(NOPS):
                    if start == 5 and op2 in PARTIAL_ANALOG_OPS: continue
                    out.append({'entry': 'h_hist', 'harness': 'h_hist.cpp', 'cfg': {'start': start, 'depth': depth, 'finish': finish, 'dupdeclare': dupdeclare}, 'forced': [op, op2], 'name': 'hist'})
            else:
                out.append({'entry': 'h_hist', 'harness': 'h_hist.cpp', 'cfg': {'start': start, 'depth': depth, 'finish': finish, 'dupdeclare': dupdeclare}, 'forced': [op], 'name': 'hist'})
    return out

def start_file(concrete_seed=None, fewer=False, empty_analog=False, deviating_lists=False, pad3=False, more=False):
    S = gen.Syms(concrete=concrete_seed is not None, seed=concrete_seed or 0)
    if empty_analog: c = gen.make_content(S, P=2, C=0, sub=0, F=2, analog='empty', fixed_plabels=['p0', 'p1'], symbolic_meta=False, units_per_point=True, first=10)
    else: c = gen.make_content(S, P=2, C=1, sub=2, F=2, fixed_plabels=['p0'] if fewer else ['p0', 'p1', 'zz'] if more else ['p0', 'p1'], labels='fewer' if fewer else 'more' if more else 'equal', fixed_alabels=['a0'], symbolic_meta=False, units_per_point=True, first=10, analog_lists='deviating3' if pad3 else 'deviating' if deviating_lists else 'equal')
    cells = c3dref.encode_with_data_start(c, c3dref.Layout())
    return S, cells

def history_of(st_or_choices):
    ch = st_or_choices.choices if hasattr(st_or_choices, 'choices') else st_or_choices
    return [OP_NAMES.get(v, str(v)) for (_, v) in ch]

def steps_of(sec):
    """[(before_section, call_dict, after_section)] for each step of the history"""
    out = []; k = 1
    while True:
        sfx = '' if k == 1 else '#%d' % k
        if 'call' + sfx not in sec: break
        out.append((sec['before' + sfx], dict(sec['call' + sfx]), sec['after' + sfx])); k += 1
    return out

def explore(engine, job, prop, per_step, wall=250, maxsteps=40_000_000, final=None):
    """run one history job; per_step(k, before_sec, call, after_sec, st) -> [Obl].  Fatal path ends are
    violations of C13's class and make this property undecided for that history (reported as inconclusive)."""
    eng = engine('O1')
    res = new_result()
    q0 = eng.sc.queries; t0 = eng.sc.time
    files = None; assume = None
    if job['cfg']['start'] in (3, 4, 5, 6, 8, 9):
        S, cells = start_file(fewer=job['cfg']['start'] == 4, empty_analog=job['cfg']['start'] == 5, deviating_lists=job['cfg']['start'] == 6, pad3=job['cfg']['start'] == 8, more=job['cfg']['start'] == 9); files = {'in.c3d': gen.to_engine_cells(cells)}; assume = S.cons
    paths = api.run_fn(eng, job['entry'], cfg=job['cfg'], files=files, assume=assume, forced_choices=job.get('forced'), wall=wall, maxsteps=maxsteps)
    first = True
    for r in paths:
        add_path(res, r)
        if r.kind == 'TIMEOUT': res['inconclusive'].append('history job %s: %s' % (job.get('forced'), r.info)); continue
        hist = '%s: %s' % (START_NAMES[job['cfg']['start']], ' ; '.join(history_of(r.st)))
        if r.kind != 'return' or 'hist.end' not in r.st.reached:
            res['fatal'] = res.get('fatal', [])
            res['fatal'].append({'history': hist, 'end': describe_end(r), 'locus': end_locus(r), 'choices': [v for _, v in r.st.choices]})
            if getattr(per_step, 'fatal_is_violation', False):
                m = eng.sc.check(r.st.pc)
                add_violation(res, '%s/hist/%s' % (prop, end_locus(r)), '%s -> %s' % (hist, describe_end(r)), replay_of(eng, r.st, m, job, files), 'memory')
            else:
                res['inconclusive'].append('%s -> %s (memory/abnormal end: see C13)' % (hist, describe_end(r)))
            continue
        sec = api.sections(r.st.obs)
        obls = []
        for k, (b, call, a) in enumerate(steps_of(sec)):
            for fk, fv in list(call.items()):
                if not is_c(fv):
                    vals = eng.concretize(r.st, tobv(fv, 64) if z3.is_bool(fv) else fv, 1)     # a fact must be determined by the path
                    call[fk] = vals[0]
            obls += per_step(k, b, call, a, r.st, sec)
        if final is not None: obls += final(sec, r.st, history_tag(steps_of(sec), rate_tag=True))
        if first and obls:
            vacuity_twin(eng, r.st, obls, res); first = False
            res['sample'] = {'history': hist, 'obligations': len(obls), 'path_condition_terms': len(r.st.pc), 'symbols': len(r.st.symlist)}
        tag = history_tag(steps_of(sec))
        for o, m in decide(eng, r.st, obls, res):
            add_violation(res, '%s/hist/%s%s' % (prop, o.locus, tag), '%s: %s' % (hist, o.detail), replay_of(eng, r.st, m, job, files))
    res['solver_queries'] += eng.sc.queries - q0
    res['solver_s'] = eng.sc.time - t0
    res['functions'] = sorted(f for f in eng.fn_executed if 'ezc3d' in f)
    return res

def history_tag(steps, rate_tag=False):
    """suffix of a violation id naming the (recorded) history feature it depends on, so that known findings are
    identified by the history that fails and other violations of the same obligation are still reported"""
    tag_rate = ''
    for b, call, a in steps:
        if call.get('call.kind') == 3 and call.get('arg.zero') == 1 and call.get('call.outcome') == 0:
            nb = dict((l, v) for l, v in b if l == 'dat.nbFrames').get('dat.nbFrames', 0)
            if nb: return '@rate-zeroed-with-data'          # a rate set back to 0 while frames carrying that kind of data exist
        if call.get('call.kind') == 3 and call.get('call.outcome') == 0:
            nb = dict((l, v) for l, v in b if l == 'dat.nbFrames').get('dat.nbFrames', 0)
            if nb: tag_rate = '@rate-changed-with-data'       # the ratio of the rates no longer matches the stored sub-frame count (matters for C01 only)
        if call.get('call.kind') == 0 and call.get('call.outcome') == 0:
            idx = call.get('arg.idx')
            nb = dict((l, v) for l, v in b if l == 'dat.nbFrames').get('dat.nbFrames', 0)
            if is_c(idx) and idx != 0xFFFFFFFFFFFFFFFF and idx > nb: return '@indexed-store-beyond-the-end'     # documented gap frames (C06)
            if call.get('arg.nbPoints') == 0 and call.get('arg.nbSubframes') == 0: return '@empty-frame-stored'
    return tag_rate if rate_tag else ''

def native_steps(nat, v):
    out, sec = native_sections(nat, v['replay'])
    return out, sec
