# C14 Saving is pure, repeatable and writes only defined bytes (DESIGN.md section 4, C14)
from .common import *
from . import gen, c01, c02
from oracle import c3dref
ID = 'C14'
HARNESSES = ['h_c01.cpp']
LEVEL = 'model_checking'
BUDGET = {'quick': 280, 'thorough': 2400}
BOUNDS = {'quick': 'the second save goes to a path that already holds the (longer) file of a bigger object; objects built through the API (C01 quick configurations) and objects loaded from every C02 layout variant; each saved twice plus an independently built/loaded equal object saved once; full dump before/between/after; every byte handed to the file model must be defined (never-written memory is tracked per byte by the executor) and the three files must be cell-wise equal (z3)',
          'thorough': 'C01/C02 thorough configurations'}
OUTSIDE = 'objects outside the C01/C02 bounds; "different processes" is modelled as an independently constructed equal object in the same symbolic run (the second object lives at other addresses, so an address or other per-object value leaking into the file shows as a difference between a.c3d and c.c3d)'
ASSUMPTIONS = ['definedness is a data-flow fact of the executor: a byte is undefined if it was never stored to since allocation, or derives from such a byte']

def jobs(tier, seed):
    out = []
    for j in [x for x in c01.jobs(tier, seed) if x.get('name') != 'hist']:
        if j['cfg']['symnames'] or j['cfg']['pad'] >= 0: continue
        if tier == 'quick' and is_sweep(j): continue
        cfg = dict(j['cfg']); cfg['source'] = 0
        if cfg['ex_group'] == 1: cfg['concname'] = 1      # (a long FREE name against the 8 names of POINT costs minutes here - the object is built twice - and is C01's subject)
        out.append({'entry': 'h_c14', 'harness': 'h_c01.cpp', 'cfg': cfg, 'name': 'api-built'})
    # quick: the lay-out variants that only differ in how the file is READ (leading zeros, block address, record order, end marker) are
    # represented by one each; every variant that changes what is WRITTEN (content kinds) is kept.  45 s of engine time per file (three saves,
    # four dumps, a bigger object saved in between, 48 paths).
    read_only_variants = ('zeros511', 'zeros512', 'zeros1+block3', 'zero_prologue', 'params_first', 'out_of_order_ids', 'sparse+reversed', 'zero_offset_terminator',
                          'zero_offset_terminator+canonical+plain', 'zero_offset_terminator+reversed+described', 'zero_offset_terminator+reversed+plain',
                          'zero_offset_terminator+params_first+described', 'zero_offset_terminator+params_first+plain', 'first_frame_2', 'extra_param_block', 'events3', 'desc128', 'labels_more')
    for j in c02.jobs(tier, seed):
        if tier == 'quick' and (is_sweep(j) or j['name'] in read_only_variants): continue
        j = dict(j); j['entry'] = 'h_c14'; j['harness'] = 'h_c01.cpp'; j['cfg'] = {'source': 1}; j['variant'] = j['name']; j['name'] = 'loaded'
        ex = list(j['opts'].get('extras', []))
        if len(ex) > 4:      # three saves of one file with many free parameters is the longest single job: split its extra parameters over two files
            for part in (ex[:4], ex[4:]): out.append(dict(j, opts=dict(j['opts'], extras=part)))
        else: out.append(j)
    out.append({'entry': 'h_c14', 'harness': 'h_c01.cpp', 'cfg': {'source': 1}, 'name': 'loaded', 'variant': 'two-free-rates', 'shape': dict(P=1, C=0, sub=0, F=1), 'lay': {},
                'opts': {'extras': [], 'events': 0, 'symbolic_meta': False, 'analog': 'empty'}, 'two_rates': True})
    return out

def field_of(off, data_start=None):
    """name of the C3D field at byte offset off of a file written by the library (header block first)"""
    if off < 512:
        w = off // 2 + 1
        names = [(1, 1, 'header.word1(parameter block, key)'), (2, 2, 'header.points'), (3, 3, 'header.analog_total'), (4, 4, 'header.first_frame'), (5, 5, 'header.last_frame'), (6, 6, 'header.gap'),
                 (7, 8, 'header.scale'), (9, 9, 'header.data_start'), (10, 10, 'header.analog_per_frame'), (11, 12, 'header.rate'), (13, 147, 'header.reserved13-147'), (148, 150, 'header.key_words'),
                 (151, 151, 'header.nb_events'), (152, 152, 'header.reserved152'), (153, 188, 'header.event_times'), (189, 197, 'header.event_flags'), (198, 198, 'header.reserved198'),
                 (199, 234, 'header.event_labels'), (235, 256, 'header.reserved235-256')]
        for a, b, n in names:
            if a <= w <= b: return n
    return 'parameter-or-data-section'

def obligations(sec, job, st):
    O = compare(sec['pre'], sec['mid'], 'pure/after-first-save') + compare(sec['mid'], sec['post'], 'pure/after-second-save')
    f = dict(sec['files'])
    a, b, c = ([cell_value(x) for x in f['#file:%s.c3d' % n]] for n in 'abc')
    for nm, x in (('second-save', b), ('equal-object', c)):
        if len(a) != len(x): O.append(Obl('repeatable/%s.length' % nm, True, 'first save %d bytes, %s %d bytes' % (len(a), nm, len(x)))); continue
        for k, (p, q) in enumerate(zip(a, x)):
            if p is None or q is None or has_undef(p) or has_undef(q): continue      # reported by the definedness obligation
            O.append(Obl('repeatable/%s/%s' % (nm, field_of(k)), neq(p, q), 'byte %d differs between the first save and the %s' % (k, nm)))
    if st is not None:
        seen = set()
        for e in st.events:
            if e[0] == 'undefined-byte-written':
                loc = field_of(e[2])
                if (loc, e[1]) in seen: continue
                seen.add((loc, e[1]))
                O.append(Obl('defined/%s' % loc, True, 'byte %d of %s comes from never-written memory (%s)' % (e[2], e[1], (e[4][0] + ' offset %d' % e[4][1]) if e[4] else 'unknown origin'), cls='memory'))
    return O

def run_job(engine, job):
    files = None; assume = None
    if job['cfg']['source'] == 1:
        if job.get('two_rates'):
            S = gen.Syms(); c = gen.make_content(S, **job['shape'], **job['opts'])
            c.rate = S.f32('hrate'); pr = S.f32('prate')
            for g in c.groups:
                for p in g.params:
                    if bytes(g.name) == b'POINT' and bytes(p.name) == b'RATE': p.values = [pr]
            from oracle import c3dref as _r
            cells = _r.encode_with_data_start(c, _r.Layout())
        else:
            S, c, lay, cells = c02.build_file(job)
        files = {'in.c3d': gen.to_engine_cells(cells)}; assume = S.cons
    return std_run(engine, job, obligations, 'c14.end', ID, job['name'], files=files, assume=assume, wall=200 if job.get('tier') != 'thorough' else 560)

def native_confirm(nat, v):
    # value disagreements replay natively; "defined" findings are data-flow facts: confirmed natively by saving with
    # two different heap fill patterns (MALLOC_PERTURB_) and comparing the files
    rp = v['replay']
    if '/defined/' in v['id']:
        outs = [nat.run(rp, env={'MALLOC_PERTURB_': p}) for p in ('85', '170')]
        fa = [o['files'].get('a.c3d') for o in outs]
        return (fa[0] != fa[1]) if all(fa) else None
    out, sec = native_sections(nat, rp)
    if out['rc'] != 0: return None
    obls = obligations(sec, v['job'], None)
    locus = v['id'].split('/', 2)[-1]
    return any(o.bad is True and o.locus == locus for o in obls)
