# Runner shared by all property checks: build IR from /repo's working tree, run scenario jobs in a process
# pool, decide obligations with z3, replay counterexamples natively, apply known_findings, write evidence.
import os, sys, json, time, tempfile, shutil, subprocess, random, collections, fnmatch, importlib, traceback, multiprocessing, hashlib

VERIF = os.path.dirname(os.path.abspath(__file__))
sys.path.insert(0, VERIF)
from irsym import build

ENGINE_DESC = 'irsym: path-wise symbolic execution of clang-14 LLVM IR of /repo/src/*.cpp + harness (public API only); z3 %s decides'

# ------------------------------------------------------------------ worker side
_W = {}
def _worker_init(modules, scen_name):
    _W['modules'] = modules; _W['engines'] = {}; _W['scen'] = importlib.import_module('scenarios.' + scen_name)
def _engine(opt='O1'):
    from irsym import api
    e = _W['engines'].get(opt)
    if e is None:
        e = _W['engines'][opt] = api.load_engine(_W['modules'][opt])
    return e
def _worker_run(job):
    t0 = time.time()
    try:
        scen = _W['scen']
        os.environ['VERIF_TIER'] = str(job.get('tier', 'quick'))
        res = scen.run_job(_engine, job)
        res.setdefault('job', job)
        res['wall'] = time.time() - t0
        return res
    except Exception as e:
        return {'job': job, 'crash': '%s: %s\n%s' % (type(e).__name__, e, traceback.format_exc()[-2000:]), 'wall': time.time() - t0}

def _worker_loop(modules, scen_name, tasks, results):
    _worker_init(modules, scen_name)
    while True:
        item = tasks.get()
        if item is None: return
        i, job = item
        results.put(('start', os.getpid(), i))
        results.put(('done', os.getpid(), i, _worker_run(job)))

def run_pool(jobs, modules, scen_name, nproc, budget, job_timeout):
    """own scheduler instead of multiprocessing.Pool: a worker that dies (crash, OOM) or exceeds the per-job
    timeout is noticed, its job is reported as crashed/undecided and a new worker is started."""
    import queue
    ctx = multiprocessing.get_context('fork')
    tasks = ctx.Queue(); resq = ctx.Queue()
    for i, j in enumerate(jobs): tasks.put((i, j))
    procs = {}
    def spawn():
        p = ctx.Process(target=_worker_loop, args=(modules, scen_name, tasks, resq), daemon=True); p.start(); procs[p.pid] = p
    for _ in range(nproc): spawn()
    running = {}            # pid -> (job index, start time)
    results = {}; t0 = time.time()
    while len(results) < len(jobs):
        if time.time() - t0 > budget: break
        try:
            msg = resq.get(timeout=0.5)
            if msg[0] == 'start': running[msg[1]] = (msg[2], time.time())
            else:
                results[msg[2]] = msg[3]; running.pop(msg[1], None)
            continue
        except queue.Empty:
            pass
        for pid, p in list(procs.items()):
            i_t = running.get(pid)
            if not p.is_alive():
                del procs[pid]
                if i_t is not None and i_t[0] not in results:
                    results[i_t[0]] = {'job': jobs[i_t[0]], 'inconclusive_worker': 'worker process died (exit code %s) while running this configuration' % p.exitcode, 'wall': time.time() - i_t[1]}
                running.pop(pid, None)
                if len(results) < len(jobs): spawn()
            elif i_t is not None and time.time() - i_t[1] > job_timeout:
                p.terminate(); p.join(5); del procs[pid]; running.pop(pid, None)
                results[i_t[0]] = {'job': jobs[i_t[0]], 'inconclusive_worker': 'configuration exceeded the per-configuration timeout of %d s' % job_timeout, 'wall': time.time() - i_t[1]}
                if len(results) < len(jobs): spawn()
    for p in procs.values():
        try: p.terminate()
        except Exception: pass
    # configurations still queued when the budget ran out: without this the queue's feeder thread blocks the interpreter's exit for ever
    # (it waits for a reader of the pipe that no longer exists)
    for q_ in (tasks, resq):
        try: q_.cancel_join_thread(); q_.close()
        except Exception: pass
    cutjobs = [jobs[i] for i in range(len(jobs)) if i not in results]
    return [results[i] for i in sorted(results)], len(cutjobs)

# ------------------------------------------------------------------ result helpers (used by scenarios, worker side)
def new_result():
    return {'paths': 0, 'nontrivial': 0, 'kinds': {}, 'obligations': 0, 'discharged': 0, 'trivial': 0, 'solver_queries': 0,
            'steps': 0, 'violations': [], 'inconclusive': [], 'events': {}, 'functions': [], 'sample': None, 'solver_s': 0.0, 'forks': 0}

def add_path(res, r):
    res['paths'] += 1
    res['kinds'][r.kind] = res['kinds'].get(r.kind, 0) + 1
    if r.st is not None:
        res['steps'] += r.st.nsteps
        if r.st.pc or r.st.symlist: res['nontrivial'] += 1
        res['forks'] += len(r.st.pc)
        for e in r.st.events:
            k = '%s|%s' % (e[0], e[1] if len(e) > 1 else '')
            res['events'][k] = res['events'].get(k, 0) + 1

def replay_of(eng, st, m, job, files=None):
    """concrete replay record for model m"""
    import z3
    rp = {'cfg': job.get('cfg', {}), 'entry': job['entry'], 'harness': job['harness'], 'choices': [v for (_, v) in st.choices], 'syms': {}, 'files': {}}
    if m is not None:
        for name, bits in st.symlist:
            rp['syms'][name] = m.eval(z3.BitVec(name, bits), model_completion=True).as_long()
        for fname, cells in (files or {}).items():
            bs = bytearray()
            for c in cells:
                if c is None: bs.append(0)
                elif type(c) is int: bs.append(c)
                else:
                    from irsym.core import cell_value
                    v = cell_value(c)
                    bs.append(v if type(v) is int else m.eval(v, model_completion=True).as_long())
            rp['files'][fname] = bytes(bs).hex()
        if st.fault is not None:
            rp['fault'] = {'open': bool(z3.is_true(m.eval(st.fault['open'], model_completion=True))), 'off': m.eval(st.fault['off'], model_completion=True).as_long(),
                           'close': bool(z3.is_true(m.eval(st.fault['close'], model_completion=True)))}
    return rp

def add_violation(res, vid, detail, replay, cls='value'):
    # keep the first counterexample per obligation id
    for v in res['violations']:
        if v['id'] == vid: v['count'] += 1; return
    res['violations'].append({'id': vid, 'detail': detail, 'replay': replay, 'class': cls, 'count': 1})

FATAL_KINDS = ('memerr', 'abort', 'ub', 'unsupported', 'inconclusive', 'budget', 'resource', 'TIMEOUT', 'uncaught')

# ------------------------------------------------------------------ native replay
def parse_native(out):
    obs = []
    for ln in out.splitlines():
        if not ln: continue
        if ln.startswith('#tag '): obs.append(('#tag', ln[5:])); continue
        if ln.startswith('#reached ') or ln.startswith('#assume') or ln.startswith('#uncaught'): obs.append((ln.split(' ')[0], ln)); continue
        l, _, v = ln.partition(' ')
        if v.startswith('['): obs.append((l, list(bytes.fromhex(v[1:-1]))))
        else: obs.append((l, int(v)))
    return obs

class NativeRunner:
    def __init__(s, workdir): s.workdir = workdir; s.exes = {}
    def exe(s, harness, entry, opt='O1', extra=(), cxx='g++'):
        k = (harness, entry, opt, tuple(extra), cxx)
        if k not in s.exes:
            tag = 'nat' + hashlib.md5(repr(k).encode()).hexdigest()[:8]
            s.exes[k] = build.build_native(os.path.join(s.workdir, tag), harness, entry, opt, extra, cxx, tag)
        return s.exes[k]
    def run(s, replay, opt='O1', extra=(), cxx='g++', env=None, timeout=120):
        exe = s.exe(replay['harness'], replay['entry'], opt, extra, cxx)
        d = tempfile.mkdtemp(dir=s.workdir)
        try:
            with open(os.path.join(d, 'replay.txt'), 'w') as f:
                for k, v in replay.get('cfg', {}).items(): f.write('cfg %s %d\n' % (k, v))
                for k, v in replay.get('syms', {}).items(): f.write('sym %s %d\n' % (k, v))
                for v in replay.get('choices', []): f.write('choice x %d\n' % v)
            for fn, hx in replay.get('files', {}).items():
                with open(os.path.join(d, fn), 'wb') as f: f.write(bytes.fromhex(hx))
            e = dict(os.environ); e['VP_REPLAY'] = os.path.join(d, 'replay.txt')
            if env: e.update(env)
            try:
                r = subprocess.run([exe], cwd=d, env=e, capture_output=True, timeout=timeout)
            except subprocess.TimeoutExpired:
                return {'rc': 'timeout', 'obs': [], 'stderr': '', 'files': {}}
            files = {}
            for fn in os.listdir(d):
                if fn != 'replay.txt':
                    try: files[fn] = open(os.path.join(d, fn), 'rb').read()
                    except OSError: pass
            return {'rc': r.returncode, 'obs': parse_native(r.stdout.decode('latin1')), 'stderr': r.stderr.decode('latin1')[-2000:], 'files': files}
        finally:
            shutil.rmtree(d, ignore_errors=True)

# ------------------------------------------------------------------ known findings
def load_known():
    p = os.path.join(VERIF, 'known_findings.json')
    if not os.path.exists(p): return []
    return json.load(open(p)).get('findings', [])

def match_known(known, prop, vid):
    for k in known:
        if k.get('status') != 'known': continue      # 'fixed' entries suppress nothing
        if k['property'] != prop: continue
        if fnmatch.fnmatchcase(vid, k['match']): return k
    return None

# ------------------------------------------------------------------ main
def main(scen_name, tier):
    t_start = time.time()
    seed = int(os.environ.get('VERIF_SEED', '0'))
    scen = importlib.import_module('scenarios.' + scen_name)
    prop = scen.ID
    workdir = tempfile.mkdtemp(prefix='vp_%s_' % prop, dir=os.environ.get('VERIF_TMP', '/var/tmp'))
    ncpu = int(os.environ.get('VERIF_JOBS', '16'))
    ev_path = os.path.join(VERIF, 'evidence', prop + '.json')
    try: os.remove(ev_path)
    except OSError: pass
    rc = 0
    try:
        t = time.time()
        opts = getattr(scen, 'OPTS', ['O1'])
        if callable(opts): opts = opts(tier)
        modules = {}
        for o in opts: modules[o] = build.build_module(os.path.join(workdir, o), scen.HARNESSES, o, 'm' + o)
        t_build = time.time() - t
        jobs = scen.jobs(tier, seed)
        for j in jobs: j['opts_levels'] = list(opts); j['tier'] = tier
        random.Random(seed).shuffle(jobs)
        jobs.sort(key=lambda j: -j.get('first', 0))        # (stable) configurations known to run long start first
        budget = scen.BUDGET[tier] if hasattr(scen, 'BUDGET') else (240 if tier == 'quick' else 3600)
        if os.environ.get('VERIF_BUDGET'): budget = int(os.environ['VERIF_BUDGET'])
        results, cut = run_pool(jobs, modules, scen_name, min(ncpu, max(1, len(jobs))), budget - (time.time() - t_start), getattr(scen, 'JOB_TIMEOUT', {}).get(tier, 600))
        nat = NativeRunner(workdir)
        known = load_known()
        rc = report(scen, prop, tier, seed, jobs, results, cut, nat, known, ev_path, t_start, t_build, workdir)
    finally:
        shutil.rmtree(workdir, ignore_errors=True)
    return rc

def report(scen, prop, tier, seed, jobs, results, cut, nat, known, ev_path, t_start, t_build, workdir):
    import z3
    agg = new_result(); crashes = []; samples = []; viol = {}; incon = []
    fnset = set(); walls = []; xc_dis = []
    for r in results:
        if 'crash' in r: crashes.append(r['crash']); continue
        if 'inconclusive_worker' in r: incon.append('%s [%s %s]' % (r['inconclusive_worker'], r['job'].get('name'), r['job'].get('field') or r['job'].get('forced') or r['job'].get('cfg'))); continue
        for k in ('paths', 'nontrivial', 'obligations', 'discharged', 'trivial', 'solver_queries', 'steps', 'forks'): agg[k] += r.get(k, 0)
        agg['solver_s'] += r.get('solver_s', 0.0)
        for k in ('xc_queries', 'xc_agree', 'xc_undecided'): agg[k] = agg.get(k, 0) + r.get(k, 0)
        agg['xc_s'] = agg.get('xc_s', 0.0) + r.get('xc_s', 0.0)
        for k, v in r.get('xc_undecided_kinds', {}).items(): agg.setdefault('xc_kinds', {}); agg['xc_kinds'][k] = agg['xc_kinds'].get(k, 0) + v
        for d in r.get('xc_disagree', []): xc_dis.append('%s [%s %s]' % (d, r['job'].get('name'), r['job'].get('cfg')))
        for k, v in r.get('kinds', {}).items(): agg['kinds'][k] = agg['kinds'].get(k, 0) + v
        for k, v in r.get('events', {}).items(): agg['events'][k] = agg['events'].get(k, 0) + v
        fnset.update(r.get('functions', []))
        if r.get('sample') is not None and len(samples) < 6: samples.append(r['sample'])
        for v in r.get('violations', []):
            if v['id'] in viol: viol[v['id']]['count'] += v['count']
            else: viol[v['id']] = dict(v); viol[v['id']]['job'] = r['job']
        incon.extend(r.get('inconclusive', []))
        walls.append((r.get('wall', 0), r['job'].get('name'), r['job'].get('field') or r['job'].get('forced') or r['job'].get('cfg')))
    # replay + classify
    lines = []; nviol = 0; nknown = 0; validated = 0; mismatches = []; dropped = []
    rdir = os.path.join(VERIF, 'replays', prop)
    for vid in sorted(viol):
        v = viol[vid]
        k = match_known(known, prop, vid)
        confirmed = None
        if v.get('replay') and hasattr(scen, 'native_confirm'):
            try:
                confirmed = scen.native_confirm(nat, v)
            except Exception as e:
                confirmed = None; v['native_error'] = '%s: %s' % (type(e).__name__, e)
            if confirmed: validated += 1
            elif confirmed is False and v.get('class') == 'value': mismatches.append(vid)
        v['native_confirmed'] = confirmed
        if v.get('class') == 'candidate' and confirmed is not True:
            dropped.append(vid); continue        # a solver-found candidate that the real builds do not confirm is logged, not reported
        os.makedirs(rdir, exist_ok=True)
        rp = os.path.join(rdir, hashlib.md5(vid.encode()).hexdigest()[:10] + '.json')
        with open(rp, 'w') as f: json.dump({'property': prop, 'id': vid, 'detail': v['detail'], 'class': v.get('class'), 'native_confirmed': confirmed, 'replay': v.get('replay'), 'job': v.get('job')}, f, indent=1, sort_keys=True)
        if k is not None:
            nknown += 1
            lines.append('KNOWN-FINDING: property=%s %s [%s] replay=%s' % (prop, k['what'], vid, rp))
            continue
        nviol += 1
        lines.append('VIOLATION property=%s replay=%s  # %s: %s%s' % (prop, rp, vid, v['detail'], '' if confirmed is None else (' [native: %s]' % ('confirmed' if confirmed else 'NOT reproduced'))))
    if hasattr(scen, 'extra_validation'):
        try:
            nv, msgs = scen.extra_validation(nat, results, tier)
            validated += nv; mismatches.extend(msgs)
        except Exception as e:
            mismatches.append('extra validation crashed: %s: %s' % (type(e).__name__, e))
    mismatches.extend('second solver disagrees: ' + d for d in xc_dis)
    wall = time.time() - t_start
    status = 'ok'
    if crashes: status = 'crash'
    elif mismatches: status = 'engine-mismatch'
    elif incon or cut: status = 'inconclusive'
    cov = {
        'states': max(agg['paths'], 1) if agg['paths'] else 0, 'transitions': agg['forks'] + agg['solver_queries'],
        'traces_validated_against_impl': validated,
        'evaluations': agg['paths'], 'distinct_nontrivial': agg['nontrivial'],
        'rule': getattr(scen, 'RULE', 'one evaluation = one finished symbolic path of one configuration; non-trivial = its path condition or inputs mention at least one symbolic variable (it stands for many concrete runs); configurations are distinct by construction'),
        'obligations': agg['obligations'], 'discharged': agg['discharged'], 'trivially_equal': agg['trivial'],
        'solver_queries': agg['solver_queries'], 'solver_time_s': round(agg['solver_s'], 2), 'ir_steps': agg['steps'],
        'configurations': len(jobs), 'configurations_done': len(results), 'configurations_cut_by_budget': cut,
        'path_kinds': agg['kinds'], 'events_logged': dict(sorted(agg['events'].items(), key=lambda kv: -kv[1])[:40]),
        'functions_encoded': sorted(f for f in fnset)[:400], 'functions_encoded_count': len(fnset),
        'bounds': getattr(scen, 'BOUNDS', {}).get(tier, ''), 'outside_claim': getattr(scen, 'OUTSIDE', ''),
        'engine': ENGINE_DESC % z3.get_version_string(), 'ir_build_s': round(t_build, 1),
        'samples': samples or [{'note': 'no sample recorded'}], 'slowest_configurations': [[round(w, 1), str(n), str(f)[:80]] for w, n, f in sorted(walls, key=lambda x: -x[0])[:8]],
        'violations_reported': nviol, 'known_findings_seen': nknown, 'status': status, 'candidates_not_confirmed_natively': dropped[:20],
        'inconclusive': incon[:20], 'crashes': crashes[:3], 'engine_native_mismatches': mismatches[:10],
        'exhaustive': False,
        'second_solver': {'solver': 'cvc5 1.0.3 (binary, SMT-LIB2 text exported from the path condition and the negated obligation)', 'queries_rechecked': agg.get('xc_queries', 0),
                          'agree': agg.get('xc_agree', 0), 'undecided_by_second_solver': agg.get('xc_undecided', 0), 'undecided_kinds': agg.get('xc_kinds', {}), 'disagree': len(xc_dis),
                          'time_s': round(agg.get('xc_s', 0.0), 1), 'rule': 'every query that came back sat (a counterexample) and a sample of the unsat ones (the 1st and 8th obligation query of each configuration in the quick tier, powers of two in the thorough tier); a different verdict fails the run as a machinery error'},
        'programs': len(jobs) * max(1, len(getattr(scen, 'OPTS', ['O1'])(tier) if callable(getattr(scen, 'OPTS', None)) else getattr(scen, 'OPTS', ['O1']))), 'disagreements_checked': agg['obligations'],
    }
    ev = {'property_id': prop, 'tier': tier, 'seed': seed, 'level': getattr(scen, 'LEVEL', 'model_checking'), 'coverage': cov,
          'assumptions': getattr(scen, 'ASSUMPTIONS', []) + COMMON_ASSUMPTIONS, 'wall_s': round(wall, 1), 'violations': nviol}
    os.makedirs(os.path.dirname(ev_path), exist_ok=True)
    with open(ev_path, 'w') as f: json.dump(ev, f, indent=1, sort_keys=True)
    for l in lines: print(l)
    print('%s %s: %d configurations, %d paths (%d non-trivial), %d obligations, %d discharged, %d violations (%d known), %.0f s, status %s' % (
        prop, tier, len(results), agg['paths'], agg['nontrivial'], agg['obligations'], agg['discharged'], nviol, nknown, wall, status))
    if mismatches:
        print('CHECK-ERROR: engine and native build disagree (machinery bug, not a finding): %s' % mismatches[:3]); return 2
    if crashes: print('CHECK-ERROR: worker crashed: ' + crashes[0])
    if nviol: return 1           # (every reported violation was replayed natively; a worker lost elsewhere does not take it back)
    if crashes: return 2
    if incon or cut:
        print('INCONCLUSIVE property=%s: %d undecided items, %d configurations cut by budget; first: %s' % (prop, len(incon), cut, incon[:1])); return 3
    return 0

COMMON_ASSUMPTIONS = [
    'clang-14 -O1 IR (vectorisers off, -D_GLIBCXX_ASSERTIONS) of the working tree is the code under analysis; g++ code generation is not modelled',
    'operator new never fails; allocation failure is out of scope',
    'std::fstream/stringstream/cout are replaced by shim headers implementing the ISO C++ iostate contract over an in-memory file model',
    'std exception constructors and std::to_string are opaque stubs (only the exception type is observable)',
    'arithmetic UB follows x86-64 machine semantics (wrap, integer-indefinite) and is logged, not failed, except where stated',
    'results hold within the stated bounds only; anything listed under outside_claim is not covered',
]
