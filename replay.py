# ./run.py --replay <path>: re-runs one recorded counterexample against a native g++ build of /repo's working tree
# with the same harness, prints the native observations that the obligation is about and the scenario's verdict.
import sys, os, json, tempfile, shutil, importlib
import framework

def main(path):
    d = json.load(open(path))
    prop = d['property']; v = {'id': d['id'], 'detail': d['detail'], 'replay': d['replay'], 'job': d.get('job'), 'class': d.get('class')}
    scen = importlib.import_module('scenarios.' + prop.lower())
    wd = tempfile.mkdtemp(prefix='vp_replay_', dir=os.environ.get('VERIF_TMP', '/var/tmp'))
    try:
        nat = framework.NativeRunner(wd)
        print('replaying %s' % d['id']); print('  %s' % d['detail'])
        rp = d['replay']
        if rp:
            print('  harness %s entry %s cfg %s' % (rp['harness'], rp['entry'], rp.get('cfg')))
            if rp.get('syms'): print('  symbolic inputs (%d): %s' % (len(rp['syms']), dict(list(rp['syms'].items())[:12])))
            if rp.get('choices'): print('  choices: %s' % rp['choices'])
            if rp.get('files'): print('  input files: %s' % {k: '%d bytes' % (len(x) // 2) for k, x in rp['files'].items()})
            if rp.get('fault'): print('  fault: %s' % rp['fault'])
        if not hasattr(scen, 'native_confirm') or not rp:
            print('no native replay available for this class of finding'); return 0
        r = scen.native_confirm(nat, v)
        print('native verdict: %s' % ('violation reproduced on the native build' if r else ('NOT reproduced on the native build' if r is False else 'undetermined')))
        return 1 if r else 0
    finally:
        shutil.rmtree(wd, ignore_errors=True)
