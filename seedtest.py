#!/usr/local/bin/python3-vt
# ./seedtest.py <seed dir> [check ids...]: applies seeded/<id>/patch.diff to /repo, runs the given checks (quick tier;
# default: the property the seed breaks), records which caught it, and restores /repo.  Never commits to /repo.
import sys, os, json, subprocess, time
def sh(cmd, **kw): return subprocess.run(cmd, shell=True, capture_output=True, text=True, **kw)
def main():
    d = sys.argv[1].rstrip('/'); checks = sys.argv[2:]
    meta = json.load(open(os.path.join(d, 'meta.json'))) if os.path.exists(os.path.join(d, 'meta.json')) else {}
    if not checks: checks = [meta.get('property')]
    tier = os.environ.get('SEED_TIER', 'quick')
    st = sh('git -C /repo status --porcelain -- src include')
    if st.stdout.strip(): print('refusing: /repo has uncommitted changes in src/include'); return 2
    r = sh('git -C /repo apply %s' % os.path.abspath(os.path.join(d, 'patch.diff')))
    if r.returncode: print('patch does not apply:', r.stderr); return 2
    out = {}
    try:
        for c in checks:
            t = time.time()
            r = sh('cd /verif && ./run.py %s --tier %s' % (c, tier))
            lines = [l for l in r.stdout.splitlines() if l.startswith('VIOLATION')]
            out[c] = {'exit': r.returncode, 'violations': len(lines), 'first': [l[:300] for l in lines[:4]], 'wall_s': round(time.time() - t), 'summary': r.stdout.strip().splitlines()[-1][:300] if r.stdout.strip() else r.stderr[-300:]}
            print(c, 'exit', r.returncode, 'violations', len(lines), '%ds' % (time.time() - t)); [print('   ', l[:260]) for l in lines[:4]]
    finally:
        sh('git -C /repo checkout -- src include')
        # evidence/replay files written during a seeded run describe the mutated tree: restore the committed ones
        sh('cd /verif && git checkout -- evidence')
    print(json.dumps(out))
    return 0
sys.exit(main())
